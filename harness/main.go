// jsim harness: workers, reference ("golden") processes, single-run replays
// and the coordinator of a check. Built from a scratch copy of the library
// that simprep instrumented (DESIGN.md §2).
package main

import (
	"encoding/json"
	"fmt"
	"io"
	"os"
	"strings"

	"github.com/jsightapi/jsight-schema-core/simrt"
)

func main() {
	if len(os.Args) < 2 {
		fatalExit("usage: harness <golden|worker|run1|coord|c19worker|version> …")
	}
	switch os.Args[1] {
	case "golden":
		goldenMain()
	case "worker":
		workerMain(os.Args[2:])
	case "run1":
		run1Main(os.Args[2:])
	case "coord":
		coordMain(os.Args[2:])
	case "replay":
		replayMain(os.Args[2:])
	case "c19worker":
		c19WorkerMain(os.Args[2:])
	case "version":
		fmt.Println("race:", simrt.RaceEnabled, "sites:", simrt.NSites())
	default:
		fatalExit("unknown subcommand " + os.Args[1])
	}
}

// genProjectIndexed: in the thorough tier the first projects of the C09 sweep
// walk the frozen corpus entry by entry (every harvested text is used at least
// once); beyond that, and in the quick tier, projects are random.
func genProjectIndexed(r *rng, wid, pj int, tier string) Project {
	if tier != "thorough" {
		return genProject(r, 10)
	}
	g := pj*64 + wid
	lists := []struct {
		kind string
		l    []string
	}{
		{"jschema", corpus.JValid}, {"jschema", corpus.JRefs}, {"jschema", corpus.JInvalid},
		{"enum", corpus.Enum}, {"rschema", corpus.Regex}, {"jsondoc", corpus.JSON}, {"guess", corpus.Guess},
	}
	for _, l := range lists {
		if g < len(l.l) {
			p := genProject(r, 0)
			// keep the random bindings only when they fit the text
			q := Project{Kind: l.kind, Name: "root", Text: l.l[g]}
			if l.kind == "jschema" {
				q = bindRefs(r, q)
			}
			_ = p
			return q
		}
		g -= len(l.l)
	}
	if g < len(corpusProjects) {
		p := corpusProjects[g] // every hand-written project as it stands, once
		p.Types = append([]TypeSpec(nil), p.Types...)
		p.Rules = append([]RuleSpec(nil), p.Rules...)
		return p
	}
	return genProject(r, 10)
}

// bindRefs registers a type (or enum rule) for every @name the text mentions.
func bindRefs(r *rng, p Project) Project {
	seen := map[string]bool{}
	for _, m := range refRe.FindAllString(p.Text, -1) {
		if seen[m] || len(seen) >= 6 {
			continue
		}
		seen[m] = true
		if strings.Contains(p.Text, "enum: "+m) || strings.Contains(p.Text, "enum:"+m) {
			p.Rules = append(p.Rules, RuleSpec{Name: m, Text: r.pick(corpus.Enum)})
			continue
		}
		k, t := genTypeText(r, []string{m}, nil)
		p.Types = append(p.Types, TypeSpec{Name: m, Kind: k, Text: t})
	}
	return p
}

// ---- run1: execute one (world, tape) in this fresh process --------------------

type Run1Out struct {
	Violation *Violation  `json:"violation,omitempty"`
	All       []Violation `json:"all,omitempty"`
	EventHash uint64      `json:"event_hash"`
	ObsHash   uint64      `json:"obs_hash"`
	Steps     int64       `json:"steps"`
	Switches  int64       `json:"switches"`
	Skipped   string      `json:"skipped,omitempty"`
	RaceText  string      `json:"race_text,omitempty"`
	Events    []string    `json:"events,omitempty"`
}

func decodeEvents(ev []uint64) []string {
	var out []string
	for _, e := range ev {
		kind := int(e >> 56)
		task := int(e>>48) & 0xff
		arg := e & 0xffffffffffff
		name := "?"
		if kind > 0 && kind < len(simrt.YieldNames) {
			name = simrt.YieldNames[kind]
		}
		s := fmt.Sprintf("task%d %s", task, name)
		if kind == simrt.YFP {
			id := int(arg & 0xffffffff)
			if id < len(simrt.Sites) {
				s += " " + simrt.Sites[id].Pkg + "." + simrt.Sites[id].Func
			}
			if arg>>40&1 == 1 {
				s += " [injected panic]"
			}
		}
		out = append(out, s)
	}
	return out
}

func run1Main(args []string) {
	var in struct {
		World *World                 `json:"world"`
		Tape  [simrt.NKinds][]uint32 `json:"tape"`
	}
	b, err := io.ReadAll(os.Stdin)
	if err != nil || json.Unmarshal(b, &in) != nil || in.World == nil {
		fatalExit("run1: bad input")
	}
	goldDir, goldBin := "", ""
	verbose := false
	for i := 0; i < len(args); i++ {
		switch args[i] {
		case "-golden-dir":
			goldDir = args[i+1]
			i++
		case "-golden-bin":
			goldBin = args[i+1]
			i++
		case "-v":
			verbose = true
		}
	}
	gs := newGoldenStore(goldDir, goldBin)
	sum := &Summary{Skipped: map[string]int64{}}
	w := in.World
	var o Run1Out
	finish := func() {
		b, _ := json.Marshal(&o)
		os.Stdout.Write(b)
		os.Stdout.Write([]byte("\n"))
	}
	if w.Prop == "C19" {
		run1C19(w, &o)
		finish()
		return
	}
	gold, skip := goldensFor(gs, w, sum)
	if skip != "" {
		o.Skipped = skip
		finish()
		return
	}
	if w.Prop == "C09" && len(gold[0].Unstable) > 0 {
		o.Violation = &Violation{Class: "reference-unstable", Kind: gold[0].Unstable[0], Detail: "two fresh processes disagree"}
		finish()
		return
	}
	tape := simrt.NewReplayTape(in.Tape)
	if w.Explore {
		tape = simrt.NewTape(w.Seed)
	}
	rl := newRaceLog()
	onFatal := func(verdict int, detail string) {
		class := map[int]string{simrt.VDeadlock: "deadlock", simrt.VStepCap: "step-cap", simrt.VHarnessBug: "harness-bug"}[verdict]
		st := simrt.GetStats()
		o.Violation = &Violation{Class: class, Kind: "run", Detail: detail}
		o.EventHash, o.Steps, o.Switches = st.EventHash, st.Steps, st.Switches
		if verbose {
			o.Events = decodeEvents(simrt.LastEvents(60))
		}
		finish()
		os.Exit(0)
	}
	res := Execute(w, tape, gold, onFatal)
	o.EventHash, o.ObsHash, o.Steps, o.Switches = res.EventHash, res.ObsHash, res.Stats.Steps, res.Stats.Switches
	o.All = res.Violations
	if len(res.Violations) > 0 {
		o.Violation = &res.Violations[0]
	}
	if rt := rl.newReports(); rt != "" {
		o.RaceText = rt
		if raceHasLibraryFrame(rt) {
			o.Violation = &Violation{Class: "race", Kind: raceSig(rt), Detail: "data race reported by the Go race detector"}
		} else {
			o.Violation = &Violation{Class: "harness-bug", Kind: "race-without-library-frame"}
		}
	}
	if verbose {
		o.Events = decodeEvents(simrt.LastEvents(60))
	}
	finish()
}
