package main

import (
	"bufio"
	"encoding/json"
	"flag"
	"fmt"
	"os"
	"regexp"
	"sort"
	"strconv"
	"strings"
	"time"

	"github.com/jsightapi/jsight-schema-core/simrt"
)

// Candidate is a run that violated an oracle, with everything needed to
// re-execute it: the world and the recorded decision tape.
type Candidate struct {
	Prop      string                 `json:"prop"`
	Seed      uint64                 `json:"seed"`
	RunIdx    int                    `json:"run_idx"`
	Wid       int                    `json:"wid"`
	Race      bool                   `json:"race"`
	World     *World                 `json:"world"`
	Tape      [simrt.NKinds][]uint32 `json:"tape"`
	Violation Violation              `json:"violation"`
	EventHash uint64                 `json:"event_hash"`
	ObsHash   uint64                 `json:"obs_hash"`
	Steps     int64                  `json:"steps"`
	RaceText  string                 `json:"race_text,omitempty"`
	Explore   bool                   `json:"explore,omitempty"` // no tape recorded (the process died): replay by seed
}

// Summary is what a worker reports about all its runs.
type Summary struct {
	Wid        int               `json:"wid"`
	Race       bool              `json:"race"`
	Runs       int               `json:"runs"`
	NextIdx    int               `json:"next_idx"`
	Ops        int64             `json:"ops"`
	Steps      int64             `json:"steps"`
	Switches   int64             `json:"switches"`
	Faults     map[string]int64  `json:"faults"`
	Probes     map[string]int64  `json:"probes"`
	Skipped    map[string]int64  `json:"skipped"`
	Shapes     []uint64          `json:"shapes"`  // hashes of non-trivial (workload shape, fault-fired set, switch sequence)
	Inter      []uint64          `json:"inter"`   // hashes of distinct interleavings (event hashes of runs with >=1 switch)
	Goldens    int               `json:"goldens"` // reference processes spawned by this worker
	Projects   int               `json:"projects"`
	Sites      int               `json:"sites"`
	SitesHit   []int             `json:"sites_hit,omitempty"`
	LinChecked int               `json:"lin_checked"`
	LinUnknown int               `json:"lin_unknown"`
	WallS      float64           `json:"wall_s"`
	Samples    []json.RawMessage `json:"samples,omitempty"`
	Violations int               `json:"violations"`
	DetCheck   []string          `json:"det,omitempty"` // "seed:eventhash:obshash" lines for the determinism self-test
}

type workerArgs struct {
	prop     string
	seed     uint64
	wid      int
	from, to int
	tier     string
	deadline int64
	faults   bool
	det      bool
}

var out *bufio.Writer

func emit(kind string, v any) {
	b, _ := json.Marshal(v)
	out.WriteString(kind)
	out.WriteByte(' ')
	out.Write(b)
	out.WriteByte('\n')
	out.Flush()
}

func propNum(p string) uint64 {
	n, _ := strconv.Atoi(strings.TrimPrefix(p, "C"))
	return uint64(n)
}

// goldensFor fetches the references of all objects of a world. It returns the
// per-object goldens (nil = not judged) and a skip reason if the whole run
// must not be judged.
func goldensFor(gs *goldenStore, w *World, sum *Summary) ([]*Golden, string) {
	gold := make([]*Golden, len(w.Objects))
	for i := range w.Objects {
		g := gs.Get(&w.Objects[i])
		if w.Prop == "C09" && i >= 2 {
			// noise object: executed, never judged - but an input that kills or
			// hangs a fresh process (C02's business) would kill this worker too
			if g.Failed != "" {
				sum.Skipped["reference-process-failed"]++
				return nil, "reference process failed on a noise object: " + g.Failed
			}
			continue
		}
		if g.Failed != "" {
			sum.Skipped["reference-process-failed"]++
			return nil, "reference process failed: " + g.Failed
		}
		if w.Prop != "C09" {
			// C10/C11 vary only their own dimension: a project whose two
			// references disagree (C09's business) or that panics for its
			// input (C02's business) is not judged here.
			if len(g.Unstable) > 0 {
				sum.Skipped["object-with-unstable-reference"]++
				continue
			}
			if g.Panics {
				sum.Skipped["object-with-panicking-reference"]++
				if w.Shared != nil && w.Shared[i] {
					return nil, "shared object panics for its input"
				}
				continue
			}
		}
		gold[i] = g
	}
	return gold, ""
}

func workerMain(args []string) {
	fs := flag.NewFlagSet("worker", flag.ExitOnError)
	var a workerArgs
	fs.StringVar(&a.prop, "prop", "", "")
	fs.Uint64Var(&a.seed, "seed", 1, "")
	fs.IntVar(&a.wid, "wid", 0, "")
	fs.IntVar(&a.from, "from", 0, "")
	fs.IntVar(&a.to, "to", 0, "")
	fs.StringVar(&a.tier, "tier", "quick", "")
	fs.Int64Var(&a.deadline, "deadline", 0, "")
	fs.BoolVar(&a.det, "det", false, "")
	progress := fs.Bool("progress", false, "print the index of every run before it starts (crash localisation)")
	corpusPath := fs.String("corpus", "", "")
	goldDir := fs.String("golden-dir", "", "")
	goldBin := fs.String("golden-bin", "", "")
	_ = fs.Parse(args)
	loadCorpus(*corpusPath)
	bigWorlds = a.tier == "thorough"
	gs := newGoldenStore(*goldDir, *goldBin)
	out = bufio.NewWriterSize(os.Stdout, 1<<16)

	sum := &Summary{Wid: a.wid, Race: simrt.RaceEnabled, Faults: map[string]int64{}, Probes: map[string]int64{}, Skipped: map[string]int64{}}
	sum.Sites = simrt.NSites()
	shapes := map[uint64]bool{}
	inter := map[uint64]bool{}
	projects := map[string]bool{}
	siteHit := make([]bool, simrt.NSites())
	var reach []uint32
	t0 := time.Now()
	rl := newRaceLog()

	tape := simrt.NewTape(0)
	var cur *Candidate // the run in flight, for the fatal handler
	var curTape *simrt.Tape
	onFatal := func(verdict int, detail string) {
		class := map[int]string{simrt.VDeadlock: "deadlock", simrt.VStepCap: "step-cap", simrt.VHarnessBug: "harness-bug"}[verdict]
		c := *cur
		c.Tape = curTape.Snapshot()
		st := simrt.GetStats()
		c.EventHash, c.Steps = st.EventHash, st.Steps
		c.Violation = Violation{Class: class, Kind: "run", Detail: detail}
		emit("CAND", &c)
		sum.Violations++
		sum.NextIdx = c.RunIdx + 1
		sum.WallS = time.Since(t0).Seconds()
		finishSummary(sum, shapes, inter, projects, siteHit)
		emit("SUM", sum)
		if verdict == simrt.VHarnessBug {
			os.Exit(exitHarnessBug)
		}
		os.Exit(exitFatalRun)
	}

	c09Var := 8
	const amplify = 5
	var steps0 int64
	noiseBase = hashSeed(a.seed, 909, uint64(a.wid))
	for i := a.from; i < a.to; i++ {
		if a.deadline > 0 && time.Now().Unix() > a.deadline {
			break
		}
		sum.NextIdx = i + 1
		if *progress {
			out.WriteString("AT " + strconv.Itoa(i) + "\n")
			out.Flush()
		}
		var w *World
		switch a.prop {
		case "C09":
			pj := i / c09Var
			pr := &rng{s: hashSeed(a.seed, 9, uint64(a.wid), uint64(pj), 77)}
			proj := genProjectIndexed(pr, a.wid, pj, a.tier)
			w = genWorldC09(hashSeed(a.seed, 9, uint64(a.wid), uint64(i)), &proj)
		case "C10":
			w = genWorldC10(hashSeed(a.seed, 10, uint64(a.wid), uint64(i)), i%4 != 0)
		case "C11":
			w = genWorldC11(hashSeed(a.seed, 11, uint64(a.wid), uint64(i)), i%5 == 4)
		default:
			fatalExit("worker: unknown property " + a.prop)
		}
		for k := range w.Objects {
			projects[w.Objects[k].Hash()] = true
		}
		gold, skip := goldensFor(gs, w, sum)
		if skip != "" {
			continue
		}
		if a.prop == "C09" {
			// a project whose two fresh-process references disagree is a
			// violation by itself (nondeterminism the seams do not own)
			if g := gold[0]; len(g.Unstable) > 0 {
				if i%c09Var == 0 {
					sort.Strings(g.Unstable)
					c := Candidate{Prop: a.prop, Seed: a.seed, RunIdx: i, Wid: a.wid, Race: simrt.RaceEnabled, World: w,
						Violation: Violation{Class: "reference-unstable", Kind: g.Unstable[0],
							Detail: "two fresh processes given the same input disagree on: " + strings.Join(g.Unstable, ",")}}
					emit("CAND", &c)
					sum.Violations++
				}
				sum.Skipped["project-with-unstable-reference(reported)"]++
				continue
			}
		}
		// Schedule amplification (C11): a world in which tasks actually met on a
		// Once or a lock is worth more than one schedule - it is executed again under
		// further tapes, with the other policies and with priority change points spread
		// over the length the first execution had. Deterministic: which worlds are
		// amplified is a function of the first execution.
		w0 := w
		nrep := 1
		for rep := 0; rep < nrep; rep++ {
			if rep > 0 {
				wc := *w0
				wc.Cfg.Policy = (w0.Cfg.Policy + rep) % simrt.NPolicies
				if steps0 > 0 {
					wc.Cfg.PCTSpan = int(steps0)
				}
				wc.Cfg.PCTDepth = 1 + rep%3
				w = &wc
			}
			tape.Reset(hashSeed(w0.Seed, uint64(rep)*0x9e3779b97f4a7c15))
			if rep == 0 {
				tape.Reset(w0.Seed)
			}
			cur = &Candidate{Prop: a.prop, Seed: a.seed, RunIdx: i, Wid: a.wid, Race: simrt.RaceEnabled, World: w}
			curTape = tape
			res := Execute(w, tape, gold, onFatal)
			raceText := rl.newReports()
			if rep == 0 && a.prop == "C11" && (res.Stats.OnceContend > 0 || res.Stats.WriterBlock > 0) {
				nrep = 1 + amplify
				steps0 = res.Stats.Steps
				sum.Probes["worlds-amplified"]++
			}

			sum.Runs++
			sum.Ops += int64(res.Ops)
			sum.Steps += res.Stats.Steps
			sum.Switches += res.Stats.Switches
			sum.LinChecked += res.LinChecked
			sum.LinUnknown += res.LinUnknown
			fired := uint64(0)
			bit := uint64(1)
			keys := make([]string, 0, len(res.FaultsFired))
			for k := range res.FaultsFired {
				keys = append(keys, k)
			}
			sort.Strings(keys)
			for _, k := range keys {
				v := res.FaultsFired[k]
				sum.Faults[k] += v
				if v > 0 {
					fired |= bit
				}
				bit <<= 1
			}
			torn := int64(0)
			regPerm := int64(0)
			for k := range w.Objects {
				if w.Objects[k].Torn != "" {
					torn++
				}
			}
			for _, t := range w.Tasks {
				for _, op := range t {
					if op.Kind == "build" && (!isIdentity(op.TPerm) || !isIdentity(op.RPerm)) {
						regPerm++
					}
				}
			}
			sum.Faults["torn-input"] += torn
			sum.Faults["reg-order"] += regPerm
			sum.Faults["other-process"] += 0
			if torn > 0 {
				fired |= 1 << 20
			}
			if regPerm > 0 {
				fired |= 1 << 21
			}
			for k, v := range res.Probes {
				sum.Probes[k] += v
			}
			reach = simrt.Reach(reach)
			for s, n := range reach {
				if n > 0 && s < len(siteHit) {
					siteHit[s] = true
				}
			}
			// distinct / non-trivial accounting (rule in the evidence file)
			nontrivial := fired != 0 || res.Stats.PoolCross > 0 || res.Stats.OnceContend > 0 || res.Stats.WriterBlock > 0
			if nontrivial {
				shapes[hashSeed(worldShape(w), fired, res.EventHash)] = true
			}
			if res.Stats.Switches > 0 {
				inter[res.EventHash] = true
			}
			if a.det {
				sum.DetCheck = append(sum.DetCheck, fmt.Sprintf("%d.%d:%x:%x:%x", i, rep, res.EventHash, res.ObsHash, fnv(0, normalizeRace(raceText))))
			}
			if len(sum.Samples) < 3 && nontrivial && (i-a.from)%7 == 0 {
				sum.Samples = append(sum.Samples, sampleOf(w, res))
			}

			var viol *Violation
			if len(res.Violations) > 0 {
				viol = &res.Violations[0]
			}
			if raceText != "" {
				if !raceHasLibraryFrame(raceText) {
					fmt.Fprintln(os.Stderr, "jsim: race report without a library frame (harness bug):\n"+raceText)
					os.Exit(exitHarnessBug)
				}
				// a data race is a violation whatever the results were
				viol = &Violation{Class: "race", Kind: raceSig(raceText), Detail: "data race reported by the Go race detector"}
			}
			if viol != nil && sum.Violations >= 60 {
				sum.Violations++ // counted, not emitted: the coordinator has enough to work with
			} else if viol != nil {
				c := *cur
				c.Tape = tape.Snapshot()
				c.Violation = *viol
				c.EventHash, c.ObsHash, c.Steps = res.EventHash, res.ObsHash, res.Stats.Steps
				c.RaceText = raceText
				emit("CAND", &c)
				sum.Violations++
			}
		} // rep
	}
	sum.WallS = time.Since(t0).Seconds()
	sum.Goldens = gs.computed
	finishSummary(sum, shapes, inter, projects, siteHit)
	emit("SUM", sum)
}

func isIdentity(p []int) bool {
	for i, x := range p {
		if x != i {
			return false
		}
	}
	return true
}

func finishSummary(sum *Summary, shapes, inter map[uint64]bool, projects map[string]bool, siteHit []bool) {
	for h := range shapes {
		sum.Shapes = append(sum.Shapes, h)
	}
	for h := range inter {
		sum.Inter = append(sum.Inter, h)
	}
	sort.Slice(sum.Shapes, func(i, j int) bool { return sum.Shapes[i] < sum.Shapes[j] })
	sort.Slice(sum.Inter, func(i, j int) bool { return sum.Inter[i] < sum.Inter[j] })
	sum.Projects = len(projects)
	for s, h := range siteHit {
		if h {
			sum.SitesHit = append(sum.SitesHit, s)
		}
	}
}

func worldShape(w *World) uint64 {
	h := uint64(len(w.Tasks))
	for _, t := range w.Tasks {
		h = hashSeed(h, uint64(len(t)))
		for _, op := range t {
			h = fnv(h, op.Kind)
			h = hashSeed(h, uint64(op.Obj))
		}
	}
	for i := range w.Objects {
		h = fnv(h, w.Objects[i].Hash())
	}
	return h
}

func sampleOf(w *World, res *RunResult) json.RawMessage {
	type objS struct {
		Kind, Text string
		Types      int
		Rules      int
		Torn       string `json:",omitempty"`
	}
	var objs []objS
	for i := range w.Objects {
		t := w.Objects[i].Text
		if len(t) > 120 {
			t = t[:120] + "…"
		}
		objs = append(objs, objS{w.Objects[i].Kind, t, len(w.Objects[i].Types), len(w.Objects[i].Rules), w.Objects[i].Torn})
	}
	var tasks [][]string
	for _, t := range w.Tasks {
		var l []string
		for _, op := range t {
			s := op.Kind
			if op.Kind != "gc" {
				s += "(" + strconv.Itoa(op.Obj) + ")"
			}
			if op.PanicAt > 0 {
				s += "!panic@" + strconv.Itoa(op.PanicAt)
			}
			l = append(l, s)
		}
		tasks = append(tasks, l)
	}
	b, _ := json.Marshal(map[string]any{
		"seed": w.Seed, "objects": objs, "tasks": tasks, "policy": simrt.PolicyNames[w.Cfg.Policy%simrt.NPolicies],
		"steps": res.Stats.Steps, "context_switches": res.Stats.Switches, "faults_fired": res.FaultsFired,
		"sched_decisions": res.Stats.Steps,
	})
	return b
}

// ---- race detector log ---------------------------------------------------------

type raceLog struct {
	path string
	off  int64
}

func newRaceLog() *raceLog {
	if !simrt.RaceEnabled {
		return &raceLog{}
	}
	// GORACE=log_path=X makes the runtime write reports to X.<pid>
	m := regexp.MustCompile(`log_path=(\S+)`).FindStringSubmatch(os.Getenv("GORACE"))
	if m == nil {
		return &raceLog{}
	}
	return &raceLog{path: m[1] + "." + strconv.Itoa(os.Getpid())}
}

func (r *raceLog) newReports() string {
	if r.path == "" {
		return ""
	}
	st, err := os.Stat(r.path)
	if err != nil || st.Size() <= r.off {
		return ""
	}
	f, err := os.Open(r.path)
	if err != nil {
		return ""
	}
	defer f.Close()
	buf := make([]byte, st.Size()-r.off)
	_, _ = f.ReadAt(buf, r.off)
	r.off = st.Size()
	return string(buf)
}

var (
	reHex   = regexp.MustCompile(`0x[0-9a-f]+`)
	reGo    = regexp.MustCompile(`[Gg]oroutine \d+`)
	reOff   = regexp.MustCompile(` \+0x[0-9a-f]+`)
	rePid   = regexp.MustCompile(`==\d+==`)
	reFrame = regexp.MustCompile(`(?m)^  (\S.*)\(.*\)$`)
)

func normalizeRace(s string) string {
	s = reOff.ReplaceAllString(s, "")
	s = reHex.ReplaceAllString(s, "0x?")
	s = reGo.ReplaceAllString(s, "goroutine N")
	s = rePid.ReplaceAllString(s, "")
	return s
}

const modPath = "github.com/jsightapi/jsight-schema-core/"

// accessStacks returns the frames of the two conflicting accesses of the
// first report (everything before "Goroutine N (…) created at").
func accessStacks(report string) []string {
	end := strings.Index(report, "created at:")
	if end < 0 {
		end = len(report)
	}
	var frames []string
	for _, m := range reFrame.FindAllStringSubmatch(report[:end], -1) {
		frames = append(frames, m[1])
	}
	return frames
}

func raceHasLibraryFrame(report string) bool {
	for _, f := range accessStacks(report) {
		if strings.HasPrefix(f, modPath) && !strings.HasPrefix(f, modPath+"simrt.") {
			return true
		}
	}
	return false
}

// raceSig names a race by the first library frame of the conflicting accesses.
func raceSig(report string) string {
	for _, f := range accessStacks(report) {
		if strings.HasPrefix(f, modPath) && !strings.HasPrefix(f, modPath+"simrt.") {
			return "race@" + strings.TrimPrefix(f, modPath)
		}
	}
	return "race"
}
