package main

import (
	"bufio"
	"bytes"
	"encoding/json"
	"errors"
	"flag"
	"fmt"
	"os"
	"sort"
	"strconv"
	"strings"
	"time"

	schema "github.com/jsightapi/jsight-schema-core"
	jjson "github.com/jsightapi/jsight-schema-core/json"
	"github.com/jsightapi/jsight-schema-core/notations/jschema"
	"github.com/jsightapi/jsight-schema-core/notations/jschema/ischema"
	"github.com/jsightapi/jsight-schema-core/notations/jschema/ischema/constraint"
	"github.com/jsightapi/jsight-schema-core/simrt"
)

// C19: single-client histories on the generated ordered containers against a
// reference insertion-ordered dictionary (DESIGN.md §3 C19). The containers
// are reached through their public methods only; the simulator contributes the
// lock ownership tracking (a lock leaked by a failing callback is detected as a
// deterministic deadlock, not by hanging) and the replay/shrink machinery.

type C19Op struct {
	Kind   string `json:"kind"` // set update delete filter map find each eachsafe get getvalue has len json add data
	Key    int    `json:"key,omitempty"`
	Mask   int    `json:"mask,omitempty"`    // filter: bit k set = keep key k; find: target key (Key) or none (Mask=1)
	FailAt int    `json:"fail_at,omitempty"` // each/map: the callback returns an error at its i-th invocation (1-based); filter: it panics there
	Panic  bool   `json:"panic,omitempty"`   // each/map/find/update: the callback panics (at its FailAt-th invocation; update: at its only one) and the caller recovers
}

type C19World struct {
	Container string  `json:"container"` // rule | ast | cons | set
	Init      string  `json:"init"`      // zero | make | new
	InitKeys  []int   `json:"init_keys,omitempty"`
	Ops       []C19Op `json:"ops"`
	NKeys     int     `json:"nkeys,omitempty"` // size of the key universe (0: the default of 5)
}

const c19DefaultKeys = 5
const c19MaxKeys = 48

// c19Keys is the key universe of the history being executed (set per run: the
// worker is single-threaded). Most histories use the small default universe, in
// which collisions (re-set, delete of a present key) are frequent; a share of them
// uses a larger one, so that a container grows across whatever size thresholds
// its implementation may have (seeded change c19f: the 9th distinct element).
var c19Keys = c19DefaultKeys

func (w *C19World) nkeys() int {
	if w.NKeys <= 0 {
		return c19DefaultKeys
	}
	if w.NKeys > c19MaxKeys {
		return c19MaxKeys
	}
	return w.NKeys
}

// The empty string is a key like any other (and key 0, so that the enumerated
// histories use it). Keys are valid UTF-8 (JSON cannot carry anything else) but otherwise unusual:
// control characters, DEL, quote, backslash, HTML-sensitive characters, a line
// separator, a non-BMP rune and a non-printable rune above U+FFFF.
var c19KeyNames = func() []string {
	kk := []string{"", "b\x01\x7f\a", "c\"q\\</&", "d\u2028é😀\U000e0001", "a"}
	for k := len(kk); k < c19MaxKeys; k++ {
		name := "k" + strconv.Itoa(k)
		switch k % 5 {
		case 1:
			name = "@T" + strconv.Itoa(k)
		case 3:
			name += "\t\u00a0"
		}
		kk = append(kk, name)
	}
	return kk
}()
var c19ConsKeys = func() []constraint.Type {
	kk := []constraint.Type{constraint.MinLengthConstraintType, constraint.MaxConstraintType, constraint.TypeConstraintType, constraint.EnumConstraintType, constraint.KeysCaseInsensitiveConstraintType}
	for k := len(kk); k < c19MaxKeys; k++ {
		kk = append(kk, constraint.Type(100+k)) // Type is an int: any value is a key
	}
	return kk
}()

// ---- reference model: insertion-ordered dictionary ---------------------------

type modelEntry struct{ k, id int }
type model struct{ e []modelEntry }

func (m *model) idx(k int) int {
	for i, e := range m.e {
		if e.k == k {
			return i
		}
	}
	return -1
}
func (m *model) set(k, id int) {
	if i := m.idx(k); i >= 0 {
		m.e[i].id = id
		return
	}
	m.e = append(m.e, modelEntry{k, id})
}
func (m *model) del(k int) {
	if i := m.idx(k); i >= 0 {
		m.e = append(m.e[:i:i], m.e[i+1:]...)
	}
}
func (m *model) text() string {
	var sb strings.Builder
	for _, e := range m.e {
		sb.WriteString(strconv.Itoa(e.k) + "=" + strconv.Itoa(e.id) + " ")
	}
	return sb.String()
}

// ---- adapters over the real containers ---------------------------------------

type cmap interface {
	Set(k, id int)
	Update(k int, fn func(id int) int)
	Delete(k int)
	Filter(fn func(k, id int) bool)
	Map(fn func(k, id int) (int, error)) error
	Find(fn func(k, id int) bool) (int, int, bool)
	Each(fn func(k, id int) error) error
	EachSafe(fn func(k, id int))
	Get(k int) (int, bool)
	GetValue(k int) int
	Has(k int) bool
	Len() int
	JSON() ([]byte, error)
}

func valID(s string) int {
	if !strings.HasPrefix(s, "v") {
		return -1
	}
	n, err := strconv.Atoi(s[1:])
	if err != nil {
		return -1
	}
	return n
}
func keyIdx(s string) int {
	for i, k := range c19KeyNames {
		if k == s {
			return i
		}
	}
	return -1
}

type ruleMap struct{ m *schema.RuleASTNodes }

func rv(id int) schema.RuleASTNode { return schema.RuleASTNode{Value: "v" + strconv.Itoa(id)} }
func (c ruleMap) Set(k, id int)    { c.m.Set(c19KeyNames[k], rv(id)) }
func (c ruleMap) Update(k int, fn func(int) int) {
	c.m.Update(c19KeyNames[k], func(v schema.RuleASTNode) schema.RuleASTNode { return rv(fn(valID(v.Value))) })
}
func (c ruleMap) Delete(k int) { c.m.Delete(c19KeyNames[k]) }
func (c ruleMap) Filter(fn func(k, id int) bool) {
	c.m.Filter(func(k string, v schema.RuleASTNode) bool { return fn(keyIdx(k), valID(v.Value)) })
}
func (c ruleMap) Map(fn func(k, id int) (int, error)) error {
	return c.m.Map(func(k string, v schema.RuleASTNode) (schema.RuleASTNode, error) {
		id, err := fn(keyIdx(k), valID(v.Value))
		return rv(id), err
	})
}
func (c ruleMap) Find(fn func(k, id int) bool) (int, int, bool) {
	it, ok := c.m.Find(func(k string, v schema.RuleASTNode) bool { return fn(keyIdx(k), valID(v.Value)) })
	return keyIdx(it.Key), valID(it.Value.Value), ok
}
func (c ruleMap) Each(fn func(k, id int) error) error {
	return c.m.Each(func(k string, v schema.RuleASTNode) error { return fn(keyIdx(k), valID(v.Value)) })
}
func (c ruleMap) EachSafe(fn func(k, id int)) {
	c.m.EachSafe(func(k string, v schema.RuleASTNode) { fn(keyIdx(k), valID(v.Value)) })
}
func (c ruleMap) Get(k int) (int, bool) { v, ok := c.m.Get(c19KeyNames[k]); return valID(v.Value), ok }
func (c ruleMap) GetValue(k int) int    { return valID(c.m.GetValue(c19KeyNames[k]).Value) }
func (c ruleMap) Has(k int) bool        { return c.m.Has(c19KeyNames[k]) }
func (c ruleMap) Len() int              { return c.m.Len() }
func (c ruleMap) JSON() ([]byte, error) { return c.m.MarshalJSON() }

type astMap struct{ m *schema.ASTNodes }

func av(id int) schema.ASTNode { return schema.ASTNode{Value: "v" + strconv.Itoa(id)} }
func (c astMap) Set(k, id int) { c.m.Set(c19KeyNames[k], av(id)) }
func (c astMap) Update(k int, fn func(int) int) {
	c.m.Update(c19KeyNames[k], func(v schema.ASTNode) schema.ASTNode { return av(fn(valID(v.Value))) })
}
func (c astMap) Delete(k int) { c.m.Delete(c19KeyNames[k]) }
func (c astMap) Filter(fn func(k, id int) bool) {
	c.m.Filter(func(k string, v schema.ASTNode) bool { return fn(keyIdx(k), valID(v.Value)) })
}
func (c astMap) Map(fn func(k, id int) (int, error)) error {
	return c.m.Map(func(k string, v schema.ASTNode) (schema.ASTNode, error) {
		id, err := fn(keyIdx(k), valID(v.Value))
		return av(id), err
	})
}
func (c astMap) Find(fn func(k, id int) bool) (int, int, bool) {
	it, ok := c.m.Find(func(k string, v schema.ASTNode) bool { return fn(keyIdx(k), valID(v.Value)) })
	return keyIdx(it.Key), valID(it.Value.Value), ok
}
func (c astMap) Each(fn func(k, id int) error) error {
	return c.m.Each(func(k string, v schema.ASTNode) error { return fn(keyIdx(k), valID(v.Value)) })
}
func (c astMap) EachSafe(fn func(k, id int)) {
	c.m.EachSafe(func(k string, v schema.ASTNode) { fn(keyIdx(k), valID(v.Value)) })
}
func (c astMap) Get(k int) (int, bool) { v, ok := c.m.Get(c19KeyNames[k]); return valID(v.Value), ok }
func (c astMap) GetValue(k int) int    { return valID(c.m.GetValue(c19KeyNames[k]).Value) }
func (c astMap) Has(k int) bool        { return c.m.Has(c19KeyNames[k]) }
func (c astMap) Len() int              { return c.m.Len() }
func (c astMap) JSON() ([]byte, error) { return c.m.MarshalJSON() }

// fakeC is a constraint value that carries an id (the interface has only
// exported methods, so the harness can implement it).
type fakeC struct {
	id int
	t  constraint.Type
}

func (f fakeC) Type() constraint.Type                { return f.t }
func (f fakeC) IsJsonTypeCompatible(jjson.Type) bool { return true }
func (f fakeC) String() string                       { return "v" + strconv.Itoa(f.id) }
func (f fakeC) ASTNode() schema.RuleASTNode          { return rv(f.id) }

func cid(c constraint.Constraint) int {
	if f, ok := c.(fakeC); ok {
		return f.id
	}
	return -1
}
func consIdx(t constraint.Type) int {
	for i, k := range c19ConsKeys {
		if k == t {
			return i
		}
	}
	return -1
}

type consMap struct{ m *ischema.Constraints }

func (c consMap) Set(k, id int) { c.m.Set(c19ConsKeys[k], fakeC{id, c19ConsKeys[k]}) }
func (c consMap) Update(k int, fn func(int) int) {
	c.m.Update(c19ConsKeys[k], func(v constraint.Constraint) constraint.Constraint { return fakeC{fn(cid(v)), c19ConsKeys[k]} })
}
func (c consMap) Delete(k int) { c.m.Delete(c19ConsKeys[k]) }
func (c consMap) Filter(fn func(k, id int) bool) {
	c.m.Filter(func(k constraint.Type, v constraint.Constraint) bool { return fn(consIdx(k), cid(v)) })
}
func (c consMap) Map(fn func(k, id int) (int, error)) error {
	return c.m.Map(func(k constraint.Type, v constraint.Constraint) (constraint.Constraint, error) {
		id, err := fn(consIdx(k), cid(v))
		return fakeC{id, k}, err
	})
}
func (c consMap) Find(fn func(k, id int) bool) (int, int, bool) {
	it, ok := c.m.Find(func(k constraint.Type, v constraint.Constraint) bool { return fn(consIdx(k), cid(v)) })
	if !ok {
		return -1, -1, false
	}
	return consIdx(it.Key), cid(it.Value), ok
}
func (c consMap) Each(fn func(k, id int) error) error {
	return c.m.Each(func(k constraint.Type, v constraint.Constraint) error { return fn(consIdx(k), cid(v)) })
}
func (c consMap) EachSafe(fn func(k, id int)) {
	c.m.EachSafe(func(k constraint.Type, v constraint.Constraint) { fn(consIdx(k), cid(v)) })
}
func (c consMap) Get(k int) (int, bool) {
	v, ok := c.m.Get(c19ConsKeys[k])
	if !ok {
		return -1, false
	}
	return cid(v), ok
}
func (c consMap) GetValue(k int) int {
	v := c.m.GetValue(c19ConsKeys[k])
	if v == nil {
		return -1
	}
	return cid(v)
}
func (c consMap) Has(k int) bool        { return c.m.Has(c19ConsKeys[k]) }
func (c consMap) Len() int              { return c.m.Len() }
func (c consMap) JSON() ([]byte, error) { return nil, errNoJSON }

var c19Tape = simrt.NewTape(0)
var c19ReplayTape = simrt.NewReplayTape([simrt.NKinds][]uint32{})

var errNoJSON = errors.New("not judged")
var errInjected = errors.New("injected callback failure")

// c19Recovered runs f and swallows the injected panic (and nothing else).
func c19Recovered(f func()) (threw bool) {
	defer func() {
		if r := recover(); r != nil {
			if r != interface{}(errInjected) {
				panic(r)
			}
			threw = true
		}
	}()
	f()
	return false
}

// ---- the run -------------------------------------------------------------------

type c19Result struct {
	viol     *Violation
	ops      int
	cbErrs   int64
	cbPanics int64
	hash     uint64
}

func newContainer(w *C19World, m *model, nextID *int) (cmap, *jschema.StringSet) {
	keys := w.InitKeys
	switch w.Container {
	case "rule":
		switch w.Init {
		case "make":
			return ruleMap{schema.MakeRuleASTNodes(2)}, nil
		case "new":
			data := map[string]schema.RuleASTNode{}
			var order []string
			for _, k := range keys {
				*nextID++
				data[c19KeyNames[k]] = rv(*nextID)
				order = append(order, c19KeyNames[k])
				m.set(k, *nextID)
			}
			return ruleMap{schema.NewRuleASTNodes(data, order)}, nil
		}
		return ruleMap{&schema.RuleASTNodes{}}, nil
	case "ast":
		return astMap{&schema.ASTNodes{}}, nil
	case "cons":
		return consMap{&ischema.Constraints{}}, nil
	case "set":
		if w.Init == "new" {
			var vv []string
			for _, k := range keys {
				vv = append(vv, c19KeyNames[k])
				m.set(k, 0)
			}
			return nil, jschema.NewStringSet(vv...)
		}
		return nil, &jschema.StringSet{}
	}
	return nil, nil
}

func dedupKeys(keys []int) []int {
	seen := map[int]bool{}
	var out []int
	for _, k := range keys {
		k = ((k % c19Keys) + c19Keys) % c19Keys
		if !seen[k] {
			seen[k] = true
			out = append(out, k)
		}
	}
	return out
}

// runC19 executes the history as the single simulated task and compares with
// the model after every operation.
func runC19(w *C19World, seed uint64, onFatal func(int, string)) *c19Result {
	res := &c19Result{}
	// seed 0 (enumerated histories): canonical map order; otherwise every range
	// over a Go map inside the container code is permuted from the seed
	tape := c19ReplayTape
	if seed != 0 {
		c19Tape.Reset(seed)
		tape = c19Tape
	} else {
		for k := range tape.S {
			tape.S[k].Pos = 0
		}
	}
	simrt.Begin(simrt.Config{Tape: tape, OnFatal: onFatal, MapPerm: seed != 0})
	simrt.Run([]func(){func() { c19Task(w, res) }})
	return res
}

func c19Task(w *C19World, res *c19Result) {
	m := &model{}
	nextID := 0
	c19Keys = w.nkeys()
	w.InitKeys = dedupKeys(w.InitKeys)
	cm, set := newContainer(w, m, &nextID)
	fail := func(i int, op C19Op, what, want, got string) {
		if res.viol == nil {
			res.viol = &Violation{Class: "model-mismatch", Kind: op.Kind, OpIdx: i, Detail: what, Want: want, Got: got}
		}
	}
	var heldJSON []heldBytes
	var heldData []heldStrings
	for i, op := range w.Ops {
		if res.viol != nil {
			break
		}
		res.ops++
		k := ((op.Key % c19Keys) + c19Keys) % c19Keys
		simrt.Note(simrt.YOpBoundary, uint64(i))
		if set != nil {
			switch op.Kind {
			case "add", "set":
				set.Add(c19KeyNames[k])
				m.set(k, 0)
			}
			if h := simrt.HeldBy(0); h != 0 {
				res.viol = &Violation{Class: "lock-leak", Kind: op.Kind, OpIdx: i, Detail: strconv.Itoa(h) + " lock(s) still held after the operation returned"}
				break
			}
			c19CheckSet(set, m, i, op, fail)
			d := set.Data()
			heldData = append(heldData, heldStrings{d, fmt.Sprint(d), i})
			if len(heldData) > 6 {
				heldData = heldData[1:]
			}
			for _, h := range heldData {
				if fmt.Sprint(h.d) != h.s && res.viol == nil {
					res.viol = &Violation{Class: "unstable-value", Kind: op.Kind, OpIdx: i,
						Detail: fmt.Sprintf("the slice returned by Data() after operation %d changed after operation %d", h.op, i), Want: h.s, Got: fmt.Sprint(h.d)}
				}
			}
			continue
		}
		switch op.Kind {
		case "set":
			nextID++
			cm.Set(k, nextID)
			m.set(k, nextID)
		case "update":
			nextID++
			id := nextID
			called := false
			threw := c19Recovered(func() {
				cm.Update(k, func(old int) int {
					called = true
					if j := m.idx(k); j < 0 || m.e[j].id != old {
						fail(i, op, "Update callback received a wrong value", "", strconv.Itoa(old))
					}
					if op.Panic {
						res.cbPanics++
						panic(errInjected)
					}
					return id
				})
			})
			if j := m.idx(k); j >= 0 {
				if !called {
					fail(i, op, "Update did not call back for a present key", "", "")
				}
				if !threw {
					m.e[j].id = id // a callback that panicked returned no value: the old one stays
				}
			} else if called {
				fail(i, op, "Update called back for an absent key", "", "")
			}
		case "delete":
			cm.Delete(k)
			m.del(k)
		case "filter":
			// F-cb-panic: the predicate panics at its FailAt-th invocation and the
			// caller recovers (user code failing inside the locked region). What the
			// container holds afterwards is judged narrowly, see below.
			var visited []int
			threw := false
			func() {
				defer func() {
					if r := recover(); r != nil && !threw {
						panic(r)
					}
				}()
				cm.Filter(func(kk, id int) bool {
					visited = append(visited, kk)
					if op.FailAt > 0 && len(visited) == op.FailAt {
						threw = true
						res.cbPanics++
						panic(errInjected)
					}
					return uint64(op.Mask)>>uint(kk)&1 == 1
				})
			}()
			var wantVisited []int
			var kept []modelEntry
			for _, e := range m.e {
				wantVisited = append(wantVisited, e.k)
				if uint64(op.Mask)>>uint(e.k)&1 == 1 {
					kept = append(kept, e)
				}
			}
			if threw {
				// The property does not fix how far a Filter whose predicate panicked
				// got. Judged: the predicate was offered the entries in order up to the
				// panic; afterwards the container is still *some* insertion-ordered
				// dictionary: what it iterates is a sub-sequence of the old content
				// (same values, no key twice) that still holds every entry the
				// predicate did not reject; Len, Has/Get and JSON must agree with that
				// iteration (c19CheckMap below, against the re-read model).
				wantVisited = wantVisited[:op.FailAt]
				rejected := map[int]bool{}
				for _, kk := range visited[:len(visited)-1] {
					if uint64(op.Mask)>>uint(kk)&1 == 0 {
						rejected[kk] = true
					}
				}
				var obs []modelEntry
				cm.EachSafe(func(kk, id int) { obs = append(obs, modelEntry{kk, id}) })
				j := 0
				for _, e := range m.e {
					if j < len(obs) && obs[j] == e {
						j++
					} else if !rejected[e.k] {
						fail(i, op, "after a Filter whose predicate panicked an entry the predicate had not rejected is gone", fmt.Sprint(m.e), fmt.Sprint(obs))
					}
				}
				if j != len(obs) {
					fail(i, op, "after a Filter whose predicate panicked the iteration is not a sub-sequence of the old content (ghost, duplicate or reordered entry)", fmt.Sprint(m.e), fmt.Sprint(obs))
				}
				kept = obs
			}
			if fmt.Sprint(visited) != fmt.Sprint(wantVisited) {
				fail(i, op, "Filter did not offer every entry once, in order, to the predicate", fmt.Sprint(wantVisited), fmt.Sprint(visited))
			}
			m.e = kept
		case "map":
			n := 0
			var planned []modelEntry
			var offered []modelEntry
			var err error
			threw := c19Recovered(func() {
				err = cm.Map(func(kk, id int) (int, error) {
					n++
					offered = append(offered, modelEntry{kk, id})
					if op.FailAt > 0 && n == op.FailAt {
						if op.Panic {
							res.cbPanics++
							panic(errInjected)
						}
						res.cbErrs++
						return id, errInjected
					}
					nextID++
					planned = append(planned, modelEntry{kk, nextID})
					return nextID, nil
				})
			})
			failed := op.FailAt > 0 && op.FailAt <= len(m.e)
			if failed != (err != nil || threw) {
				fail(i, op, "Map error propagation", fmt.Sprint(failed), fmt.Sprint(err))
			}
			// iteration order is an observable: the callback must be offered the
			// entries in insertion order (up to and including the failing one)
			wantOffered := m.e
			if failed {
				wantOffered = m.e[:op.FailAt]
			}
			if fmt.Sprint(offered) != fmt.Sprint(wantOffered) {
				fail(i, op, "Map did not offer the entries to the callback in insertion order", fmt.Sprint(wantOffered), fmt.Sprint(offered))
			}
			if !failed {
				for _, p := range planned {
					if j := m.idx(p.k); j >= 0 {
						m.e[j].id = p.id
					}
				}
			} else {
				// The property does not fix how far a failing Map got: key set and
				// order must be unchanged; values are re-read from the container.
				for j := range m.e {
					if id, ok := cm.Get(m.e[j].k); ok {
						okID := id == m.e[j].id
						for _, p := range planned {
							if p.k == m.e[j].k && p.id == id {
								okID = true
							}
						}
						if !okID {
							fail(i, op, "after a failing Map a value is neither the old nor the mapped one", "", strconv.Itoa(id))
						}
						m.e[j].id = id
					}
				}
			}
		case "find":
			target := k
			if op.Mask&1 == 1 {
				target = -1
			}
			var offered []int
			var gk, gid int
			var ok bool
			threw := c19Recovered(func() {
				gk, gid, ok = cm.Find(func(kk, id int) bool {
					offered = append(offered, kk)
					if op.Panic && op.FailAt > 0 && len(offered) == op.FailAt {
						res.cbPanics++
						panic(errInjected)
					}
					return kk == target
				})
			})
			j := m.idx(target)
			var wantOffered []int
			for _, e := range m.e {
				wantOffered = append(wantOffered, e.k)
				if e.k == target || (op.Panic && len(wantOffered) == op.FailAt) {
					break
				}
			}
			if fmt.Sprint(offered) != fmt.Sprint(wantOffered) {
				fail(i, op, "Find did not offer the entries to the predicate in insertion order", fmt.Sprint(wantOffered), fmt.Sprint(offered))
			}
			// a predicate that panicked: no result to judge; the content (read-only
			// operation) is compared with the unchanged model below
			if !threw && ok != (j >= 0) || (!threw && ok && (gk != target || gid != m.e[j].id)) {
				fail(i, op, "Find result", fmt.Sprint(j >= 0), fmt.Sprint(gk, gid, ok))
			}
		case "each":
			n := 0
			var seen []modelEntry
			var err error
			threw := c19Recovered(func() {
				err = cm.Each(func(kk, id int) error {
					n++
					if op.FailAt > 0 && n == op.FailAt {
						if op.Panic {
							res.cbPanics++
							panic(errInjected)
						}
						res.cbErrs++
						return errInjected
					}
					seen = append(seen, modelEntry{kk, id})
					return nil
				})
			})
			failed := op.FailAt > 0 && op.FailAt <= len(m.e)
			if failed != (err != nil || threw) {
				fail(i, op, "Each error propagation", fmt.Sprint(failed), fmt.Sprint(err))
			}
			want := m.e
			if failed {
				want = m.e[:op.FailAt-1]
			}
			if fmt.Sprint(seen) != fmt.Sprint(want) {
				fail(i, op, "Each iteration", fmt.Sprint(want), fmt.Sprint(seen))
			}
		}
		// O-live first: a leaked lock would make the comparison below block
		if h := simrt.HeldBy(0); h != 0 {
			res.viol = &Violation{Class: "lock-leak", Kind: op.Kind, OpIdx: i, Detail: strconv.Itoa(h) + " lock(s) still held after the operation returned"}
			break
		}
		if res.viol == nil {
			if b := c19CheckMap(cm, m, i, op, fail); b != nil {
				heldJSON = append(heldJSON, heldBytes{b, string(b), i})
				if len(heldJSON) > 6 {
					heldJSON = heldJSON[1:]
				}
			}
		}
		// the JSON handed out after earlier operations is the caller's: it must
		// not change when the container is used again
		for _, h := range heldJSON {
			if string(h.b) != h.s && res.viol == nil {
				res.viol = &Violation{Class: "unstable-value", Kind: op.Kind, OpIdx: i,
					Detail: fmt.Sprintf("the JSON returned after operation %d changed after operation %d", h.op, i), Want: h.s, Got: string(h.b)}
			}
		}
	}
	res.hash = fnv(0, m.text())
}

type heldBytes struct {
	b  []byte
	s  string
	op int
}
type heldStrings struct {
	d  []string
	s  string
	op int
}

// c19CheckMap compares every observable of the container with the model. It
// returns the JSON bytes the container handed out (nil: none / not judged).
func c19CheckMap(cm cmap, m *model, i int, op C19Op, fail func(int, C19Op, string, string, string)) []byte {
	if got := cm.Len(); got != len(m.e) {
		fail(i, op, "Len", strconv.Itoa(len(m.e)), strconv.Itoa(got))
	}
	for k := 0; k < c19Keys; k++ {
		j := m.idx(k)
		if got := cm.Has(k); got != (j >= 0) {
			fail(i, op, "Has("+strconv.Itoa(k)+")", fmt.Sprint(j >= 0), fmt.Sprint(got))
		}
		id, ok := cm.Get(k)
		if ok != (j >= 0) || (ok && id != m.e[j].id) {
			fail(i, op, "Get("+strconv.Itoa(k)+")", fmt.Sprint(j >= 0), fmt.Sprint(id, ok))
		}
		if j >= 0 {
			if got := cm.GetValue(k); got != m.e[j].id {
				fail(i, op, "GetValue("+strconv.Itoa(k)+")", strconv.Itoa(m.e[j].id), strconv.Itoa(got))
			}
		}
	}
	var it []modelEntry
	cm.EachSafe(func(k, id int) { it = append(it, modelEntry{k, id}) })
	if fmt.Sprint(it) != fmt.Sprint(m.e) {
		fail(i, op, "iteration order/content (EachSafe)", fmt.Sprint(m.e), fmt.Sprint(it))
	}
	var it2 []modelEntry
	_ = cm.Each(func(k, id int) error { it2 = append(it2, modelEntry{k, id}); return nil })
	if fmt.Sprint(it2) != fmt.Sprint(m.e) {
		fail(i, op, "iteration order/content (Each)", fmt.Sprint(m.e), fmt.Sprint(it2))
	}
	b, err := cm.JSON()
	if err == errNoJSON {
		return nil
	}
	if err != nil {
		fail(i, op, "MarshalJSON error", "nil", err.Error())
		return nil
	}
	if !json.Valid(b) {
		fail(i, op, "MarshalJSON is not valid JSON", "", string(b))
		return b
	}
	dec := json.NewDecoder(bytes.NewReader(b))
	tok, _ := dec.Token()
	if d, ok := tok.(json.Delim); !ok || d != '{' {
		fail(i, op, "MarshalJSON is not an object", "{", string(b))
		return b
	}
	var got []modelEntry
	for dec.More() {
		kt, err := dec.Token()
		if err != nil {
			fail(i, op, "MarshalJSON token", "", err.Error())
			return b
		}
		var v struct{ Value string }
		if err := dec.Decode(&v); err != nil {
			fail(i, op, "MarshalJSON value", "", err.Error())
			return b
		}
		ks, _ := kt.(string)
		got = append(got, modelEntry{keyIdx(ks), valID(v.Value)})
	}
	if fmt.Sprint(got) != fmt.Sprint(m.e) {
		fail(i, op, "MarshalJSON keys/values/order", fmt.Sprint(m.e), fmt.Sprint(got)+" "+string(b))
	}
	return b
}

func c19CheckSet(s *jschema.StringSet, m *model, i int, op C19Op, fail func(int, C19Op, string, string, string)) {
	if got := s.Len(); got != len(m.e) {
		fail(i, op, "Len", strconv.Itoa(len(m.e)), strconv.Itoa(got))
	}
	for k := 0; k < c19Keys; k++ {
		if got := s.Has(c19KeyNames[k]); got != (m.idx(k) >= 0) {
			fail(i, op, "Has", fmt.Sprint(m.idx(k) >= 0), fmt.Sprint(got))
		}
	}
	var want []string
	for _, e := range m.e {
		want = append(want, c19KeyNames[e.k])
	}
	if got := s.Data(); fmt.Sprint(got) != fmt.Sprint(want) {
		fail(i, op, "Data order", fmt.Sprint(want), fmt.Sprint(got))
	}
}

// ---- generation ----------------------------------------------------------------

var c19MapOps = []string{"set", "set", "set", "update", "delete", "delete", "filter", "map", "find", "each", "set"}

func genC19(seed uint64, maxOps int) *World {
	r := &rng{s: seed}
	cw := &C19World{Container: []string{"rule", "ast", "cons", "set"}[r.n(4)]}
	cw.Init = []string{"zero", "make", "new"}[r.n(3)]
	nk := c19DefaultKeys
	grow := false
	if r.pct(30) {
		// a larger universe, and a history that mostly inserts, so that the container
		// grows past 8, 16, 32 … entries (and shrinks again through filter/delete)
		nk = []int{3, 9, 10, 12, 17, 18, 33, 40, c19MaxKeys}[r.n(9)]
		cw.NKeys = nk
		grow = r.pct(70)
		if grow {
			maxOps = nk*2 + 8
		}
	}
	if cw.Init == "new" {
		cw.InitKeys = r.perm(nk)[:r.n(nk+1)]
	}
	n := 1 + r.n(maxOps)
	if grow && n < nk {
		n = nk + r.n(nk)
	}
	for i := 0; i < n; i++ {
		op := C19Op{Kind: c19MapOps[r.n(len(c19MapOps))], Key: r.n(nk)}
		if grow && r.pct(60) {
			op.Kind = "set"
			if r.pct(50) {
				op.Key = i % nk // sweep the universe: every key gets inserted
			}
		}
		switch op.Kind {
		case "filter":
			op.Mask = int(r.next() & (1<<uint(nk) - 1))
			if grow && r.pct(50) {
				op.Mask |= int(r.next() & (1<<uint(nk) - 1)) // keep most
			}
		case "find":
			op.Mask = r.n(4) / 3
		case "each", "map":
			if r.pct(35) {
				op.FailAt = 1 + r.n(nk)
			}
		}
		if op.Kind == "filter" && r.pct(25) {
			op.FailAt = 1 + r.n(nk)
		}
		switch op.Kind {
		case "each", "map":
			op.Panic = op.FailAt > 0 && r.pct(30)
		case "find":
			if r.pct(15) {
				op.Panic, op.FailAt = true, 1+r.n(nk)
			}
		case "update":
			op.Panic = r.pct(10)
		}
		cw.Ops = append(cw.Ops, op)
	}
	b, _ := json.Marshal(cw)
	return &World{Prop: "C19", Seed: seed, Objects: []Project{{Kind: "c19", Text: string(b)}}}
}

func c19Of(w *World) *C19World {
	var cw C19World
	if len(w.Objects) == 0 || json.Unmarshal([]byte(w.Objects[0].Text), &cw) != nil {
		return nil
	}
	return &cw
}

// enumerateC19 yields every history of exactly n operations over the given
// reduced alphabet (exhaustive tier: small bounded space walked completely, as
// the property's quantifier asks; the seeded search covers the longer ones).
func enumerateC19(container string, n int, f func(*C19World)) {
	var alphabet []C19Op
	for k := 0; k < 3; k++ {
		alphabet = append(alphabet, C19Op{Kind: "set", Key: k}, C19Op{Kind: "delete", Key: k})
	}
	alphabet = append(alphabet, C19Op{Kind: "update", Key: 0}, C19Op{Kind: "filter", Mask: 0b0101}, C19Op{Kind: "filter", Mask: 0b0010},
		C19Op{Kind: "map"}, C19Op{Kind: "map", FailAt: 2}, C19Op{Kind: "each", FailAt: 1}, C19Op{Kind: "find", Key: 1}, C19Op{Kind: "filter", Mask: 0b0100, FailAt: 2})
	idx := make([]int, n)
	for {
		cw := &C19World{Container: container, Init: "zero"}
		for _, i := range idx {
			cw.Ops = append(cw.Ops, alphabet[i])
		}
		f(cw)
		j := n - 1
		for j >= 0 {
			idx[j]++
			if idx[j] < len(alphabet) {
				break
			}
			idx[j] = 0
			j--
		}
		if j < 0 {
			return
		}
	}
}

// ---- worker / replay -------------------------------------------------------------

func c19Describe(cw *C19World) string {
	var l []string
	for _, op := range cw.Ops {
		s := op.Kind
		switch op.Kind {
		case "filter":
			s += fmt.Sprintf("(keep=%04b)", op.Mask)
			if op.FailAt > 0 {
				s += fmt.Sprintf("(panic@%d)", op.FailAt)
			}
		case "map", "each":
			if op.FailAt > 0 && op.Panic {
				s += fmt.Sprintf("(panic@%d)", op.FailAt)
			} else if op.FailAt > 0 {
				s += fmt.Sprintf("(fail@%d)", op.FailAt)
			}
		case "find":
			if op.Mask&1 == 1 {
				s += "(none)"
			} else {
				s += "(" + strconv.Itoa(op.Key) + ")"
			}
		default:
			s += "(" + strconv.Itoa(op.Key) + ")"
		}
		l = append(l, s)
	}
	return cw.Container + "/" + cw.Init + fmt.Sprint(cw.InitKeys) + ": " + strings.Join(l, " ")
}

func run1C19(w *World, o *Run1Out) {
	cw := c19Of(w)
	if cw == nil {
		o.Skipped = "bad c19 world"
		return
	}
	onFatal := func(verdict int, detail string) {
		class := map[int]string{simrt.VDeadlock: "deadlock", simrt.VStepCap: "step-cap", simrt.VHarnessBug: "harness-bug"}[verdict]
		o.Violation = &Violation{Class: class, Kind: "run", Detail: detail + " (a container operation blocks forever: a lock was leaked)"}
		st := simrt.GetStats()
		o.EventHash, o.Steps = st.EventHash, st.Steps
		b, _ := json.Marshal(o)
		os.Stdout.Write(append(b, '\n'))
		os.Exit(0)
	}
	res := runC19(cw, w.Seed, onFatal)
	st := simrt.GetStats()
	o.EventHash, o.ObsHash, o.Steps = st.EventHash, res.hash, st.Steps
	o.Violation = res.viol
}

func c19WorkerMain(args []string) {
	fs := flag.NewFlagSet("c19worker", flag.ExitOnError)
	seed := fs.Uint64("seed", 1, "")
	wid := fs.Int("wid", 0, "")
	from := fs.Int("from", 0, "")
	to := fs.Int("to", 0, "")
	nw := fs.Int("nworkers", 1, "")
	exh := fs.Int("exhaustive", 0, "enumerate all histories up to this length (split over workers)")
	deadline := fs.Int64("deadline", 0, "")
	_ = fs.Parse(args)
	out = bufio.NewWriterSize(os.Stdout, 1<<16)
	sum := &Summary{Wid: *wid, Faults: map[string]int64{}, Probes: map[string]int64{}, Skipped: map[string]int64{}}
	shapes := map[uint64]bool{}
	t0 := time.Now()
	var cur *Candidate
	onFatal := func(verdict int, detail string) {
		class := map[int]string{simrt.VDeadlock: "deadlock", simrt.VStepCap: "step-cap", simrt.VHarnessBug: "harness-bug"}[verdict]
		c := *cur
		c.Violation = Violation{Class: class, Kind: "run", Detail: detail + " (a container operation blocks forever: a lock was leaked)"}
		emit("CAND", &c)
		sum.Violations++
		sum.NextIdx = c.RunIdx + 1
		sum.WallS = time.Since(t0).Seconds()
		for h := range shapes {
			sum.Shapes = append(sum.Shapes, h)
		}
		emit("SUM", sum)
		os.Exit(exitFatalRun)
	}
	one := func(i int, w *World, cw *C19World) {
		cur = &Candidate{Prop: "C19", Seed: *seed, RunIdx: i, Wid: *wid, World: w}
		res := runC19(cw, w.Seed, onFatal)
		sum.Runs++
		sum.Ops += int64(res.ops)
		sum.Steps += simrt.GetStats().Steps
		sum.Faults["callback-error"] += res.cbErrs
		sum.Faults["callback-panic"] += res.cbPanics
		// non-trivial: the history changed the container at least twice and
		// contains a delete/filter/failing callback; distinct by final content + op kinds
		nt := false
		muts := 0
		h := res.hash
		for _, op := range cw.Ops {
			h = fnv(h, op.Kind)
			h = hashSeed(h, uint64(op.Key), uint64(op.Mask), uint64(op.FailAt))
			switch op.Kind {
			case "delete", "filter":
				nt = true
				muts++
			case "set", "update", "map", "add":
				muts++
			}
			if op.FailAt > 0 {
				nt = true
			}
		}
		if nt && muts >= 2 {
			shapes[fnv(h, cw.Container+cw.Init)] = true
		}
		if len(sum.Samples) < 3 && nt && i%11 == 0 {
			b, _ := json.Marshal(map[string]any{"history": c19Describe(cw), "final_model_hash": res.hash})
			sum.Samples = append(sum.Samples, b)
		}
		if res.viol != nil {
			c := *cur
			c.Violation = *res.viol
			c.ObsHash = res.hash
			emit("CAND", &c)
			sum.Violations++
		}
	}
	idx := 0
	if *exh > 0 {
		for _, cont := range []string{"rule", "ast", "cons"} {
			for n := 1; n <= *exh; n++ {
				enumerateC19(cont, n, func(cw *C19World) {
					idx++
					if idx%*nw != *wid {
						return
					}
					b, _ := json.Marshal(cw)
					w := &World{Prop: "C19", Objects: []Project{{Kind: "c19", Text: string(b)}}}
					one(-idx, w, cw)
					sum.Probes["exhaustive-histories"]++
				})
			}
		}
	}
	for i := *from; i < *to; i++ {
		if *deadline > 0 && i%256 == 0 && time.Now().Unix() > *deadline {
			break
		}
		sum.NextIdx = i + 1
		maxOps := 12
		if i%3 == 0 {
			maxOps = 30
		}
		w := genC19(hashSeed(*seed, 19, uint64(*wid), uint64(i)), maxOps)
		one(i, w, c19Of(w))
	}
	sum.WallS = time.Since(t0).Seconds()
	for h := range shapes {
		sum.Shapes = append(sum.Shapes, h)
	}
	sort.Slice(sum.Shapes, func(i, j int) bool { return sum.Shapes[i] < sum.Shapes[j] })
	emit("SUM", sum)
}
