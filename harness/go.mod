module jsimharness

go 1.18

require (
	github.com/anishathalye/porcupine v1.3.0
	github.com/jsightapi/jsight-schema-core v0.0.0
)

replace github.com/jsightapi/jsight-schema-core => ../repo
