package main

import (
	"crypto/sha1"
	"encoding/base64"
	"encoding/hex"
	"encoding/json"
	"unicode/utf8"
)

// Txt is an input text. Inputs may be torn in the middle of a multi-byte
// character; JSON strings cannot carry invalid UTF-8 (encoding/json replaces it),
// so such texts travel as {"b64": …} and every process sees the same bytes.
type Txt string

func (t Txt) MarshalJSON() ([]byte, error) {
	if utf8.ValidString(string(t)) {
		return json.Marshal(string(t))
	}
	return json.Marshal(map[string]string{"b64": base64.StdEncoding.EncodeToString([]byte(t))})
}

func (t *Txt) UnmarshalJSON(b []byte) error {
	var s string
	if json.Unmarshal(b, &s) == nil {
		*t = Txt(s)
		return nil
	}
	var m map[string]string
	if err := json.Unmarshal(b, &m); err != nil {
		return err
	}
	d, err := base64.StdEncoding.DecodeString(m["b64"])
	*t = Txt(d)
	return err
}

// A Project is one self-contained input of the library: a root text plus the
// named types and enum rules registered with it (DESIGN.md §2.3).
type Project struct {
	Kind  string     `json:"kind"` // jschema | rschema | enum | jsondoc | guess
	Name  string     `json:"name"`
	Text  string     `json:"text"`
	Types []TypeSpec `json:"types,omitempty"`
	Rules []RuleSpec `json:"rules,omitempty"`
	Torn  string     `json:"torn,omitempty"` // how Text (or a type) was torn, for the evidence only
	// ShareWith-1 is the index of an earlier object of the world whose type and rule
	// *objects* this one registers too (same Types/Rules lists): the way an API
	// project registers its one set of user-type objects with every schema in it.
	// 0: own fresh objects. Not part of the input's identity (Hash).
	ShareWith int `json:"share_with,omitempty"`
	// Opt: constructor options. jschema: "optkeys" (keys optional by default);
	// rschema: "seed=<n>" (regex.WithGeneratorSeed). Part of the input's identity.
	Opt string `json:"opt,omitempty"`
	// Buf > 0: the text is handed to the library as a []byte that lives in the
	// caller's reusable buffer number Buf (the constructors keep the caller's slice).
	// An object that takes a buffer over ends the life of the buffer's previous owner:
	// no further call on it, nothing held from it. Not part of the input's identity.
	Buf int `json:"buf,omitempty"`
	// RulesOnly (with ShareWith): only the enum rule objects are shared, and they
	// exist before the tasks start - the way rule objects registered once are used by
	// schemas that different goroutines work on (C11). Type objects are never shared
	// between tasks: compilation completes them in place.
	RulesOnly bool `json:"rules_only,omitempty"`
}

type TypeSpec struct {
	Name string `json:"name"`
	Kind string `json:"kind"` // j | r
	Text string `json:"text"`
}

type RuleSpec struct {
	Name string `json:"name"`
	Text string `json:"text"`
}

type projectJ struct {
	Kind      string     `json:"kind"`
	Name      string     `json:"name"`
	Text      Txt        `json:"text"`
	Types     []TypeSpec `json:"types,omitempty"`
	Rules     []RuleSpec `json:"rules,omitempty"`
	Torn      string     `json:"torn,omitempty"`
	ShareWith int        `json:"share_with,omitempty"`
	Opt       string     `json:"opt,omitempty"`
	Buf       int        `json:"buf,omitempty"`
	RulesOnly bool       `json:"rules_only,omitempty"`
}

func (p Project) MarshalJSON() ([]byte, error) {
	return json.Marshal(projectJ{p.Kind, p.Name, Txt(p.Text), p.Types, p.Rules, p.Torn, p.ShareWith, p.Opt, p.Buf, p.RulesOnly})
}
func (p *Project) UnmarshalJSON(b []byte) error {
	var j projectJ
	err := json.Unmarshal(b, &j)
	*p = Project{j.Kind, j.Name, string(j.Text), j.Types, j.Rules, j.Torn, j.ShareWith, j.Opt, j.Buf, j.RulesOnly}
	return err
}

type typeJ struct {
	Name string `json:"name"`
	Kind string `json:"kind"`
	Text Txt    `json:"text"`
}

func (t TypeSpec) MarshalJSON() ([]byte, error) {
	return json.Marshal(typeJ{t.Name, t.Kind, Txt(t.Text)})
}
func (t *TypeSpec) UnmarshalJSON(b []byte) error {
	var j typeJ
	err := json.Unmarshal(b, &j)
	*t = TypeSpec{j.Name, j.Kind, string(j.Text)}
	return err
}

type ruleJ struct {
	Name string `json:"name"`
	Text Txt    `json:"text"`
}

func (t RuleSpec) MarshalJSON() ([]byte, error) { return json.Marshal(ruleJ{t.Name, Txt(t.Text)}) }
func (t *RuleSpec) UnmarshalJSON(b []byte) error {
	var j ruleJ
	err := json.Unmarshal(b, &j)
	*t = RuleSpec{j.Name, string(j.Text)}
	return err
}

func (p *Project) Hash() string {
	b, _ := json.Marshal(struct {
		K string
		N string
		T Txt
		Y []TypeSpec
		R []RuleSpec
		O string `json:",omitempty"`
	}{p.Kind, p.Name, Txt(p.Text), p.Types, p.Rules, p.Opt})
	h := sha1.Sum(b)
	return hex.EncodeToString(h[:])
}

// Op is one public-API operation on one object of the world.
type Op struct {
	Obj  int    `json:"obj"`
	Kind string `json:"kind"` // build | used | len | check | ast | example | openapi | deref | pattern | values | lexemes | guess | gc
	// build only: order in which the AddRule / AddType calls are issued
	RPerm []int `json:"rperm,omitempty"`
	TPerm []int `json:"tperm,omitempty"`
	// variation switched on before this op (C09): map permutation on/off, address policy
	MapPerm    bool `json:"mapperm,omitempty"`
	AddrPolicy int  `json:"addr,omitempty"`
	// F-panic: the n-th panic-capable failpoint hit inside this op panics (0: none)
	PanicAt int `json:"panic_at,omitempty"`
}

// RunCfg is the swarm configuration of a run (explore-mode gates; a replay is
// driven by the tape alone).
type RunCfg struct {
	Policy       int  `json:"policy"`
	SwitchPct    int  `json:"switch_pct"`
	PCTDepth     int  `json:"pct_depth"`
	PCTSpan      int  `json:"pct_span,omitempty"`
	PoolFreshPct int  `json:"pool_fresh_pct"`
	PoolAnyPct   int  `json:"pool_any_pct"`
	PoolDropPct  int  `json:"pool_drop_pct"`
	FPYieldPct   int  `json:"fp_yield_pct"`
	ClockVaryPct int  `json:"clock_vary_pct,omitempty"`
	CPUVary      bool `json:"cpu_vary,omitempty"`
	RandVary     bool `json:"rand_vary,omitempty"`
	KeepPools    bool `json:"keep_pools,omitempty"`
}

// World is the complete workload of one run.
type World struct {
	Prop    string    `json:"prop"`
	Seed    uint64    `json:"seed"`
	Objects []Project `json:"objects"`
	Shared  []bool    `json:"shared,omitempty"` // object is built before the tasks start and used by several tasks
	Tasks   [][]Op    `json:"tasks"`
	Cfg     RunCfg    `json:"cfg"`
	Explore bool      `json:"explore,omitempty"` // replay by seed: decisions come from the PRNG seeded with Seed, not from a recorded tape
}

func (w *World) Clone() *World {
	b, _ := json.Marshal(w)
	var c World
	_ = json.Unmarshal(b, &c)
	return &c
}

func (w *World) NumOps() int {
	n := 0
	for _, t := range w.Tasks {
		n += len(t)
	}
	return n
}

// Violation is one oracle failure found in a run.
type Violation struct {
	Class  string `json:"class"` // ref-mismatch | unstable-value | race | deadlock | step-cap | lock-leak | lin | unowned-nondeterminism | model-mismatch
	Kind   string `json:"kind"`  // call kind the oracle failed on
	Obj    int    `json:"obj"`
	Task   int    `json:"task"`
	OpIdx  int    `json:"op_idx"`
	Detail string `json:"detail"`
	Want   string `json:"want,omitempty"`
	Got    string `json:"got,omitempty"`
}

func (v *Violation) Sig() string { return v.Class + "/" + v.Kind }
