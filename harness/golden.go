package main

import (
	"bytes"
	"encoding/json"
	"os"
	"os/exec"
	"path/filepath"
	"strconv"
	"sync"
	"time"

	"github.com/jsightapi/jsight-schema-core/simrt"
)

// Golden is the reference for one project: the observations of its canonical
// script computed by a fresh OS process that handles nothing else, in the
// canonical configuration (sorted map order, LIFO pools, ascending addresses,
// declared registration order, one goroutine). It is computed twice — the
// second process runs with another GOMAXPROCS and after a project-dependent
// amount of throw-away allocation, so that machine addresses differ.
type Golden struct {
	Obs      map[string]string `json:"obs"`
	Unstable []string          `json:"unstable,omitempty"` // keys on which the two processes disagree
	Panics   bool              `json:"panics,omitempty"`   // some call let a panic escape
	Failed   string            `json:"failed,omitempty"`   // the reference process crashed or timed out
	Input    *Project          `json:"input,omitempty"`    // kept only when Failed, for the record
}

// goldenScript runs the canonical script in this process (golden subcommand).
func goldenScript(p *Project) map[string]string {
	obs := map[string]string{}
	in := &inst{proj: p}
	op := Op{Kind: "build"}
	b := func() (o outcome) {
		defer func() {
			if r := recover(); r != nil {
				o = outcome{obs: "PANIC:" + panicText(r)}
			}
		}()
		return in.build(&op)
	}()
	obs["build"] = b.obs
	for _, k := range scriptKinds(p.Kind) {
		key, out := in.call(k, false)
		obs[key] = out.obs
	}
	return obs
}

func goldenMain() {
	var p Project
	if err := json.NewDecoder(os.Stdin).Decode(&p); err != nil {
		fatalExit("golden: bad project: " + err.Error())
	}
	if n, _ := strconv.Atoi(os.Getenv("JSIM_PERTURB")); n > 0 {
		perturbHeap(n)
	}
	// The script runs as the one task of a simulated run on the all-zero tape (the
	// canonical configuration: sorted map order, LIFO pools, ascending addresses,
	// canonical clock tick / CPU count / random seed, and - should the library start
	// goroutines of its own - the canonical schedule), so that the reference is a
	// function of the input even for code whose real execution would not be.
	var obs map[string]string
	simrt.Begin(simrt.Config{Tape: simrt.NewReplayTape([simrt.NKinds][]uint32{}), StepCap: 1 << 30,
		OnFatal: func(v int, d string) { fatalExit("golden: the canonical execution does not end: " + d) }})
	simrt.Run([]func(){func() { obs = goldenScript(&p) }})
	_ = json.NewEncoder(os.Stdout).Encode(obs)
}

var sink [][]byte

// perturbHeap shifts the addresses later allocations receive.
func perturbHeap(n int) {
	for i := 0; i < n; i++ {
		sink = append(sink, make([]byte, 16+(i*37)%4096))
	}
}

type goldenStore struct {
	dir      string
	bin      string
	mu       sync.Mutex
	mem      map[string]*Golden
	computed int
}

func newGoldenStore(dir, bin string) *goldenStore {
	_ = os.MkdirAll(dir, 0o755)
	return &goldenStore{dir: dir, bin: bin, mem: map[string]*Golden{}}
}

func runGoldenProc(bin string, pj []byte, perturb, procs int) (map[string]string, string) {
	cmd := exec.Command(bin, "golden")
	cmd.Stdin = bytes.NewReader(pj)
	cmd.Env = append(os.Environ(), "JSIM_PERTURB="+strconv.Itoa(perturb), "GOMAXPROCS="+strconv.Itoa(procs), "GORACE=")
	if perturb > 0 {
		// "in every process": the second reference process also lives in another
		// time zone and locale, collects garbage far more often, and finds a HOME and
		// a working directory of its own
		cmd.Env = append(cmd.Env, "TZ=Pacific/Kiritimati", "LANG=tr_TR.UTF-8", "LC_ALL=tr_TR.UTF-8", "GOGC=25", "HOME=/nonexistent", "USER=nobody")
		cmd.Dir = os.TempDir()
	}
	var out, errb bytes.Buffer
	cmd.Stdout, cmd.Stderr = &out, &errb
	if err := cmd.Start(); err != nil {
		return nil, "start: " + err.Error()
	}
	done := make(chan error, 1)
	go func() { done <- cmd.Wait() }()
	select {
	case err := <-done:
		if err != nil {
			return nil, "exit: " + err.Error() + " " + lastLine(errb.String())
		}
	case <-time.After(20 * time.Second):
		_ = cmd.Process.Kill()
		return nil, "timeout"
	}
	var obs map[string]string
	if err := json.Unmarshal(out.Bytes(), &obs); err != nil {
		return nil, "decode: " + err.Error()
	}
	return obs, ""
}

func lastLine(s string) string {
	if len(s) > 300 {
		s = s[len(s)-300:]
	}
	return s
}

// Get returns the golden of p, computing it with two fresh processes on a
// cache miss. Safe for concurrent use by goroutines of the coordinator; the
// on-disk cache is shared between worker processes (atomic rename).
func (g *goldenStore) Get(p *Project) *Golden {
	h := p.Hash()
	g.mu.Lock()
	if r, ok := g.mem[h]; ok {
		g.mu.Unlock()
		return r
	}
	g.mu.Unlock()
	file := filepath.Join(g.dir, h+".json")
	if b, err := os.ReadFile(file); err == nil {
		var r Golden
		if json.Unmarshal(b, &r) == nil {
			g.mu.Lock()
			g.mem[h] = &r
			g.mu.Unlock()
			return &r
		}
	}
	pj, _ := json.Marshal(p)
	r := &Golden{}
	o1, e1 := runGoldenProc(g.bin, pj, 0, 1)
	if e1 != "" {
		r.Failed = e1
	} else {
		perturb := 1 + int(fnv(0, h)%997)
		o2, e2 := runGoldenProc(g.bin, pj, perturb, 16)
		if e2 != "" {
			r.Failed = e2
		} else {
			r.Obs = o1
			for k, v := range o1 {
				if o2[k] != v {
					r.Unstable = append(r.Unstable, k)
				}
				if len(v) >= 6 && v[:6] == "PANIC:" {
					r.Panics = true
				}
			}
		}
	}
	if r.Failed != "" {
		r.Input = p
	}
	b, _ := json.Marshal(r)
	tmp := file + "." + strconv.Itoa(os.Getpid()) + ".tmp"
	if os.WriteFile(tmp, b, 0o644) == nil {
		_ = os.Rename(tmp, file)
	}
	g.mu.Lock()
	g.mem[h] = r
	g.computed++
	g.mu.Unlock()
	return r
}
