package main

import (
	"fmt"
	"os"
	"regexp"
	"strconv"
	"strings"
	"time"

	"github.com/anishathalye/porcupine"
	"github.com/jsightapi/jsight-schema-core/rules/enum"
	"github.com/jsightapi/jsight-schema-core/simrt"
)

// RunResult is everything a single simulated run produced.
type RunResult struct {
	Violations  []Violation            `json:"violations,omitempty"`
	Verdict     int                    `json:"verdict"` // simrt fatal verdict, if any
	Stats       simrt.Stats            `json:"stats"`
	Tape        [simrt.NKinds][]uint32 `json:"-"`
	EventHash   uint64                 `json:"event_hash"`
	ObsHash     uint64                 `json:"obs_hash"`
	Ops         int                    `json:"ops"`
	Skipped     string                 `json:"skipped,omitempty"` // why the run was not judged (unstable golden, panicking golden …)
	FaultsFired map[string]int64       `json:"faults_fired,omitempty"`
	Probes      map[string]int64       `json:"probes,omitempty"`
	LinChecked  int                    `json:"lin_checked,omitempty"`
	LinUnknown  int                    `json:"lin_unknown,omitempty"`
}

type taskState struct {
	viol   []Violation
	held   []held
	obsLog []uint64 // per op: hash of observation
	lin    []linEvent
	torn   int64
	panics int64
	leaks  int64
}

type linEvent struct {
	obj, task int
	call, ret int64
	out       string
}

type executor struct {
	w                           *World
	gold                        []*Golden // per object
	insts                       []*inst
	ts                          []taskState
	single                      bool
	relaxed                     []bool // per object: after an injected failure
	steps                       func() int64
	sharedJudged, sharedSkipped int64
}

// sameObs compares an observation with the reference. C09 compares byte for
// byte. C10 and C11 hold the address dimension canonical, but a world with
// several objects numbers its %p tokens across objects, so token *values*
// differ from the single-object reference while their order does not: there,
// tokens are compared by order of appearance (an address that reaches an
// observable is C09's finding, never C10's or C11's).
func (x *executor) sameObs(want, got string) bool {
	if want == got {
		return true
	}
	if x.w.Prop == "C09" {
		return false
	}
	return normTokens(want) == normTokens(got)
}

var tokRe = regexp.MustCompile(`0xc0001[0-9a-f]{5}`)

func normTokens(s string) string {
	if !strings.Contains(s, "0xc0001") {
		return s
	}
	seen := map[string]int{}
	return tokRe.ReplaceAllStringFunc(s, func(t string) string {
		n, ok := seen[t]
		if !ok {
			n = len(seen) + 1
			seen[t] = n
		}
		return "0xTOKEN" + strconv.Itoa(n)
	})
}

func fnv(h uint64, s string) uint64 {
	if h == 0 {
		h = 0xcbf29ce484222325
	}
	for i := 0; i < len(s); i++ {
		h = (h ^ uint64(s[i])) * 0x100000001b3
	}
	return h
}

// judged reports whether observations on object o are compared with the golden.
func (x *executor) judged(o int) bool { return x.gold[o] != nil && !x.relaxed[o] && !x.insts[o].dead }

func (x *executor) runOps(task int, ops []Op) {
	ts := &x.ts[task]
	for i := range ops {
		op := &ops[i]
		simrt.Note(simrt.YOpBoundary, uint64(task)<<32|uint64(i))
		if simrt.TimersArmed() {
			// The caller lets time pass between two calls: while the library has timers
			// armed, every fourth operation boundary is a pause of a millisecond to ten
			// minutes (a function of the world, no tape decision), so that what the library
			// scheduled for later happens in the middle of the history and not only at its
			// end. Without timers nothing happens here (the pinned library arms none).
			if h := hashSeed(x.w.Seed, 77, uint64(task), uint64(i)); (h>>16)%4 == 0 {
				simrt.TimeSleep([]time.Duration{time.Millisecond, time.Second, 10 * time.Second, 10 * time.Minute}[(h>>24)%4])
			}
		}
		if op.Kind == "gc" {
			simrt.PoolGC()
			continue
		}
		in := x.insts[op.Obj]
		simrt.SetVariation(op.MapPerm, op.AddrPolicy)
		var key string
		var out outcome
		if op.PanicAt > 0 && panicOK(op.Kind) {
			simrt.ArmPanic(op.PanicAt)
		}
		if in.retired {
			continue
		}
		if op.Kind == "build" {
			if b := x.w.Objects[op.Obj].Buf; b > 0 {
				// the caller reuses its buffer: whoever had its text there is finished
				// (an error value may read its file's bytes when asked for its line, so
				// nothing of the old object is looked at again)
				for o := range x.w.Objects {
					if o != op.Obj && x.w.Objects[o].Buf == b && x.insts[o].built {
						x.insts[o].retired = true
						for t := range x.ts {
							for j := range x.ts[t].held {
								if x.ts[t].held[j].obj == o {
									x.ts[t].held[j].live = nil
								}
							}
						}
					}
				}
			}
			key = "build"
			out = func() (o outcome) {
				defer func() {
					if r := recover(); r != nil {
						o = outcome{obs: "PANIC:" + panicText(r)}
					}
				}()
				return in.build(op)
			}()
		} else {
			if !in.built {
				continue
			}
			var t0 int64
			sharedObj := x.w.Shared != nil && op.Obj < len(x.w.Shared) && x.w.Shared[op.Obj]
			if in.rs != nil && op.Kind == "example" && sharedObj {
				t0 = x.steps()
			}
			key, out = in.call(op.Kind, sharedObj)
			if in.rs != nil && op.Kind == "example" && sharedObj {
				ts.lin = append(ts.lin, linEvent{obj: op.Obj, task: task, call: t0, ret: x.steps(), out: out.obs})
				key = "" // judged by O-lin, not per call index
			}
		}
		if x.w.Prop == "C09" && !panicOK(op.Kind) {
			// C09 lists its observables (error, Len, AST, example, used types, OpenAPI
			// text); the internal tree is not among them, so under varied map order
			// and addresses it is walked (reach) but not compared.
			key = ""
		}
		if op.Kind == "ensureap" && in.sharesTypes {
			// the mutator was applied to the root's own tree only (its type objects are
			// other schemas' too): what it reports is not what the reference, which went
			// into the types as well, reports
			key = ""
		}
		if op.PanicAt > 0 && panicOK(op.Kind) {
			_, fired := simrt.Disarm()
			if fired >= 0 {
				// The object met an injected internal failure: whatever it
				// returns now and later is not compared (DESIGN §2.4); other
				// objects get no relaxation.
				x.relaxed[op.Obj] = true
				// … and so are the schemas that registered the same type/rule objects
				grp := func(o int) int {
					if d := x.w.Objects[o].ShareWith - 1; d >= 0 && d < o {
						return d
					}
					return o
				}
				for o := range x.w.Objects {
					if grp(o) == grp(op.Obj) {
						x.relaxed[o] = true
					}
				}
				ts.panics++
			}
		}
		ts.obsLog = append(ts.obsLog, fnv(fnv(0, key), out.obs))
		simrt.Note(simrt.YOpBoundary, fnv(0, out.obs)&0xffffffff)

		// O-ref
		if key != "" && x.judged(op.Obj) {
			if want, ok := x.gold[op.Obj].Obs[key]; ok && !x.sameObs(want, out.obs) {
				ts.viol = append(ts.viol, Violation{Class: "ref-mismatch", Kind: op.Kind, Obj: op.Obj, Task: task, OpIdx: i,
					Detail: "observation differs from the fresh-process reference", Want: want, Got: out.obs})
			}
		}
		// The text handed over in the caller's buffer is the caller's: the library
		// keeps the slice, it must not write into it.
		if b := x.w.Objects[op.Obj].Buf; b > 0 && b < len(callerBufs) && in.built && in.bufLoaded && !x.relaxed[op.Obj] {
			t := x.w.Objects[op.Obj].Text
			if len(t) > 0 && len(t) <= len(callerBufs[b]) && string(callerBufs[b][:len(t)]) != t {
				ts.viol = append(ts.viol, Violation{Class: "unstable-value", Kind: op.Kind, Obj: op.Obj, Task: task, OpIdx: i,
					Detail: "the caller's input bytes were modified by the library", Want: sanit(t), Got: sanit(string(callerBufs[b][:len(t)]))})
				copy(callerBufs[b][:len(t)], t) // report once
			}
		}
		// O-live: no simulated lock may still be held when a call has returned
		if h := simrt.HeldBy(task); h != 0 && !x.relaxed[op.Obj] {
			ts.leaks++
			ts.viol = append(ts.viol, Violation{Class: "lock-leak", Kind: op.Kind, Obj: op.Obj, Task: task, OpIdx: i,
				Detail: strconv.Itoa(h) + " lock(s) still held after the call returned"})
		}
		// O-stable
		if out.live != nil && !x.relaxed[op.Obj] {
			ts.held = append(ts.held, held{text: out.obs, live: out.live, kind: op.Kind, obj: op.Obj, task: task, op: i})
		}
		if x.single {
			x.checkStable(task, i, false)
		} else {
			x.checkStable(task, i, true)
		}
		simrt.Yield(simrt.YOpBoundary, 0)
	}
}

// checkStable re-serialises held values and compares with the text taken at
// return time. In multi-task runs only byte/string values of the task's own,
// unshared objects are checked in flight (re-serialising an AST takes container
// locks another task may hold); everything is checked again after the run.
func (x *executor) checkStable(task, opIdx int, inFlight bool) {
	ts := &x.ts[task]
	if inFlight {
		// between the operations of a run with several tasks only plain memory is
		// compared, without yielding and without consuming the tape
		simrt.Quiet()
		defer simrt.Loud()
	}
	// Otherwise re-reading a held value may run library code (an informer asked
	// again, an AST walked through its containers): it runs as ordinary simulated
	// code of this task - the library may start goroutines or select in there.
	for j := range ts.held {
		h := &ts.held[j]
		if h.live == nil {
			continue
		}
		if inFlight {
			switch h.kind {
			case "ast", "values", "deref", "rules", "types", "inner":
				continue
			}
		}
		now := h.live()
		if now != h.text {
			ts.viol = append(ts.viol, Violation{Class: "unstable-value", Kind: h.kind, Obj: h.obj, Task: h.task, OpIdx: h.op,
				Detail: fmt.Sprintf("value returned by op %d changed after op %d of task %d", h.op, opIdx, task), Want: h.text, Got: now})
			h.live = nil // report once
		}
	}
}

// Execute runs the world under the given tape and returns what happened.
func Execute(w *World, tape *simrt.Tape, gold []*Golden, onFatal func(int, string)) *RunResult {
	res := &RunResult{}
	x := &executor{w: w, gold: gold, single: len(w.Tasks) == 1}
	x.insts = make([]*inst, len(w.Objects))
	x.relaxed = make([]bool, len(w.Objects))
	for i := range w.Objects {
		x.insts[i] = &inst{proj: &w.Objects[i]}
	}
	for i := range w.Objects {
		if d := w.Objects[i].ShareWith - 1; d >= 0 && d < i {
			x.insts[i].donor = x.insts[d]
			if !w.Objects[i].RulesOnly {
				x.insts[i].sharesTypes, x.insts[d].sharesTypes = true, true
			}
		}
	}
	// rule objects shared between tasks are created before the tasks start
	for i := range w.Objects {
		if d := w.Objects[i].ShareWith - 1; w.Objects[i].RulesOnly && d >= 0 && d < i && x.insts[d].ruleObjs == nil {
			dp := &w.Objects[d]
			x.insts[d].ruleObjs = make([]*enum.Enum, len(dp.Rules))
			for k, r := range dp.Rules {
				x.insts[d].ruleObjs[k] = enum.New(r.Name, r.Text)
			}
		}
	}
	// Schemas that register the same type objects are judged only when every one of
	// them is accepted in a fresh process: compilation completes the types in place
	// (by design), and a compilation that *fails* half-way leaves them half-completed
	// for the next schema (unchanged tree: the first reports code 704, the second 402).
	// Such a group is executed, as unrelated work for the other objects, but not judged.
	for i := range w.Objects {
		d := w.Objects[i].ShareWith - 1
		if d < 0 || d >= i || w.Objects[i].RulesOnly {
			continue
		}
		ok := true
		for _, o := range []int{i, d} {
			if gold[o] == nil || gold[o].Obs["check"] != "nil" {
				ok = false
			}
		}
		if !ok && !usesAllOf(&w.Objects[i]) && !usesAllOf(&w.Objects[d]) {
			// allOf is the rule whose compilation completes types in place; without
			// it nothing is written into a registered type, accepted or not
			ok = gold[i] != nil && gold[d] != nil
		}
		if !ok {
			for o := range w.Objects {
				if o == d || w.Objects[o].ShareWith-1 == d {
					x.relaxed[o] = true
				}
			}
			x.sharedSkipped++
		} else {
			x.sharedJudged++
		}
	}
	x.ts = make([]taskState, len(w.Tasks))
	x.steps = func() int64 { return simrt.GetStats().Steps }

	cfg := simrt.Config{
		Tape: tape, Policy: w.Cfg.Policy, SwitchPct: w.Cfg.SwitchPct, PCTDepth: w.Cfg.PCTDepth, PCTSpan: w.Cfg.PCTSpan,
		PoolFreshPct: w.Cfg.PoolFreshPct, PoolAnyPct: w.Cfg.PoolAnyPct, PoolDropPct: w.Cfg.PoolDropPct,
		StepCap: stepCapFor(w), FPYieldPct: w.Cfg.FPYieldPct, ClockVaryPct: w.Cfg.ClockVaryPct, CPUVary: w.Cfg.CPUVary, RandVary: w.Cfg.RandVary, KeepPools: w.Cfg.KeepPools, OnFatal: onFatal,
	}
	simrt.Begin(cfg)

	// shared objects are built before the tasks start (registration is not in
	// C11's list of concurrently callable operations) - as a one-task phase of the
	// simulated run, not outside it: registration runs library code too
	var sharedObjs []int
	for i := range w.Objects {
		if w.Shared != nil && w.Shared[i] {
			sharedObjs = append(sharedObjs, i)
		}
	}
	if len(sharedObjs) > 0 {
		simrt.Run([]func(){func() {
			for _, i := range sharedObjs {
				op := Op{Obj: i, Kind: "build"}
				x.insts[i].build(&op)
			}
		}})
	}

	fns := make([]func(), len(w.Tasks))
	for t := range w.Tasks {
		t := t
		fns[t] = func() { x.runOps(t, w.Tasks[t]) }
	}
	simrt.Run(fns)

	// after the tasks: everything once more, including ASTs and shared objects -
	// again as a one-task phase of the simulated run
	simrt.Run([]func(){func() {
		for t := range x.ts {
			x.checkStable(t, -1, false)
		}
	}})
	res.Stats = simrt.GetStats()
	res.Verdict = simrt.Verdict()
	res.EventHash = res.Stats.EventHash
	var oh uint64
	for t := range x.ts {
		res.Violations = append(res.Violations, x.ts[t].viol...)
		for _, h := range x.ts[t].obsLog {
			oh = (oh ^ h) * 0x100000001b3
		}
		res.Ops += len(x.ts[t].obsLog)
	}
	res.ObsHash = oh
	x.checkLin(res)
	res.FaultsFired = map[string]int64{
		"map-order":  res.Stats.MapPermFired,
		"addr-order": res.Stats.AddrNonAsc,
		"pool-fresh": res.Stats.PoolFresh,
		"pool-any":   res.Stats.PoolAny,
		"pool-drop":  res.Stats.PoolDrop,
		"pool-gc":    res.Stats.PoolGC,
		"panic":      res.Stats.FPPanics,
		"preemption": res.Stats.Switches,
		"clock-step": res.Stats.ClockJumps + res.Stats.Stalls,
	}
	res.Probes = map[string]int64{
		"pool-item-crossed-tasks":                 res.Stats.PoolCross,
		"pool-item-reused":                        res.Stats.PoolReuse,
		"once-contended":                          res.Stats.OnceContend,
		"rwlock-blocked":                          res.Stats.WriterBlock,
		"blocked":                                 res.Stats.Blocks,
		"library-spawned-tasks":                   res.Stats.Spawned,
		"channel-operations":                      res.Stats.ChanOps,
		"clock-reads-by-the-library":              res.Stats.ClockReads,
		"timers-armed-by-the-library":             res.Stats.Timers,
		"timers-fired":                            res.Stats.TimerFires,
		"stalls-while-timers-armed":               res.Stats.Stalls,
		"library-tasks-abandoned-at-the-end":      res.Stats.Abandoned,
		"waits-on-a-context-channel":              res.Stats.Polls,
		"schemas-sharing-type-objects-judged":     x.sharedJudged,
		"schemas-sharing-type-objects-not-judged": x.sharedSkipped,
	}
	return res
}

// checkLin decides O-lin: repeated Example() on one shared regex schema must
// be explainable by some order, consistent with real time, in which the i-th
// call returned the i-th reference example.
func (x *executor) checkLin(res *RunResult) {
	byObj := map[int][]linEvent{}
	for t := range x.ts {
		for _, e := range x.ts[t].lin {
			byObj[e.obj] = append(byObj[e.obj], e)
		}
	}
	for obj, evs := range byObj {
		g := x.gold[obj]
		if g == nil || len(evs) == 0 {
			continue
		}
		model := porcupine.Model{
			Init: func() interface{} { return 0 },
			Step: func(state, input, output interface{}) (bool, interface{}) {
				i := state.(int)
				want, ok := g.Obs["example#"+strconv.Itoa(i)]
				if !ok {
					return false, state
				}
				return want == output.(string), i + 1
			},
			Equal: func(a, b interface{}) bool { return a.(int) == b.(int) },
		}
		var ops []porcupine.Operation
		for _, e := range evs {
			ops = append(ops, porcupine.Operation{ClientId: e.task, Input: 0, Call: e.call, Output: e.out, Return: e.ret})
		}
		r := porcupine.CheckOperationsTimeout(model, ops, 5*time.Second)
		res.LinChecked++
		switch r {
		case porcupine.Illegal:
			res.Violations = append(res.Violations, Violation{Class: "lin", Kind: "example", Obj: obj,
				Detail: "no order of the concurrent Example() calls consistent with real time yields the reference sequence"})
		case porcupine.Unknown:
			res.LinUnknown++
		}
	}
}

// stepCapFor: the step cap turns "the tasks keep running but nothing ends" into a
// verdict. With one task there is no scheduling that could cause that (a task
// waiting for itself is a deadlock verdict; a loop without yields is the watchdog's),
// so the cap only guards the tape there and is set far above any input's need.
func stepCapFor(w *World) int {
	if len(w.Tasks) <= 1 {
		return 1 << 30
	}
	return 2000000
}

func usesAllOf(p *Project) bool {
	if strings.Contains(p.Text, "allOf") {
		return true
	}
	for _, t := range p.Types {
		if strings.Contains(t.Text, "allOf") {
			return true
		}
	}
	return false
}

func fatalExit(msg string) {
	fmt.Fprintln(os.Stderr, "jsim: "+msg)
	os.Exit(2)
}
