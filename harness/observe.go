package main

import (
	"errors"
	"fmt"
	"io"
	"regexp"
	"sort"
	"strconv"
	"strings"
	"unicode/utf8"

	schema "github.com/jsightapi/jsight-schema-core"
	jbytes "github.com/jsightapi/jsight-schema-core/bytes"
	fjson "github.com/jsightapi/jsight-schema-core/formats/json"
	jjson "github.com/jsightapi/jsight-schema-core/json"
	"github.com/jsightapi/jsight-schema-core/kit"
	"github.com/jsightapi/jsight-schema-core/notations/jschema"
	"github.com/jsightapi/jsight-schema-core/notations/jschema/ischema"
	"github.com/jsightapi/jsight-schema-core/notations/jschema/ischema/constraint"
	"github.com/jsightapi/jsight-schema-core/notations/regex"
	"github.com/jsightapi/jsight-schema-core/openapi"
	"github.com/jsightapi/jsight-schema-core/rules/enum"
)

// Canonical text of outcomes. Everything observable about a call's result goes
// into the text, so that equality of texts is equality of observable results.

func safeStr(f func() string) (s string) {
	defer func() {
		if r := recover(); r != nil {
			s = "<panic:" + panicText(r) + ">"
		}
	}()
	return f()
}

func panicText(r any) string {
	switch v := r.(type) {
	case error:
		return fmt.Sprintf("%T:%s", v, safeStr(v.Error))
	case string:
		return "string:" + v
	}
	return fmt.Sprintf("%T:%v", r, r)
}

func errText(err error) string {
	if err == nil {
		return "nil"
	}
	var sb strings.Builder
	if ke, ok := err.(kit.Error); ok {
		sb.WriteString("KE{code=")
		sb.WriteString(safeStr(func() string { return strconv.Itoa(ke.ErrCode()) }))
		sb.WriteString(" msg=")
		sb.WriteString(strconv.Quote(safeStr(ke.Message)))
		sb.WriteString(" idx=")
		sb.WriteString(safeStr(func() string { return strconv.FormatUint(uint64(ke.Index()), 10) }))
		sb.WriteString(" line=")
		sb.WriteString(safeStr(func() string { return strconv.FormatUint(uint64(ke.Line()), 10) }))
		sb.WriteString(" col=")
		sb.WriteString(safeStr(func() string { return strconv.FormatUint(uint64(ke.Column()), 10) }))
		sb.WriteString(" file=")
		sb.WriteString(strconv.Quote(safeStr(ke.Filename)))
		sb.WriteString(" ut=")
		sb.WriteString(strconv.Quote(safeStr(ke.IncorrectUserType)))
		sb.WriteString("} ")
	}
	sb.WriteString(fmt.Sprintf("%T|", err))
	sb.WriteString(safeStr(err.Error))
	return sb.String()
}

func writeRules(sb *strings.Builder, r *schema.RuleASTNodes) {
	if r == nil {
		sb.WriteString("<nil>")
		return
	}
	sb.WriteString("{")
	r.EachSafe(func(k string, v schema.RuleASTNode) {
		sb.WriteString(strconv.Quote(k))
		sb.WriteString(":")
		writeRule(sb, v)
		sb.WriteString(",")
	})
	sb.WriteString("}#")
	sb.WriteString(strconv.Itoa(r.Len()))
}

func writeRule(sb *strings.Builder, v schema.RuleASTNode) {
	sb.WriteString("(")
	sb.WriteString(string(v.TokenType))
	sb.WriteString(" v=")
	sb.WriteString(strconv.Quote(v.Value))
	sb.WriteString(" c=")
	sb.WriteString(strconv.Quote(v.Comment))
	sb.WriteString(" src=")
	sb.WriteString(strconv.Itoa(int(v.Source)))
	sb.WriteString(" props=")
	writeRules(sb, v.Properties)
	sb.WriteString(" items=[")
	for _, it := range v.Items {
		writeRule(sb, it)
		sb.WriteString(",")
	}
	sb.WriteString("])")
}

func writeAST(sb *strings.Builder, n *schema.ASTNode, depth int) {
	if depth > 200 {
		sb.WriteString("<deep>")
		return
	}
	sb.WriteString("N(")
	sb.WriteString(string(n.TokenType))
	sb.WriteString(" st=")
	sb.WriteString(strconv.Quote(n.SchemaType))
	sb.WriteString(" k=")
	sb.WriteString(strconv.Quote(n.Key))
	sb.WriteString(" v=")
	sb.WriteString(strconv.Quote(n.Value))
	sb.WriteString(" c=")
	sb.WriteString(strconv.Quote(n.Comment))
	if n.IsKeyShortcut {
		sb.WriteString(" ks")
	}
	sb.WriteString(" inh=")
	sb.WriteString(strconv.Quote(n.InheritedFrom))
	sb.WriteString(" rules=")
	writeRules(sb, n.Rules)
	sb.WriteString(" ch=[")
	for i := range n.Children {
		writeAST(sb, &n.Children[i], depth+1)
		sb.WriteString(",")
	}
	sb.WriteString("])")
}

func astText(n *schema.ASTNode) string {
	return safeStr(func() string {
		var sb strings.Builder
		writeAST(&sb, n, 0)
		return sb.String()
	})
}

// A held value: something the library handed to the caller, kept alive so that
// O-stable can compare its live content with the text taken at return time.
type held struct {
	text string        // canonical text at return time
	live func() string // re-serialises the live value
	kind string
	obj  int
	task int
	op   int
}

// result of one call
type outcome struct {
	obs  string
	live func() string // nil: nothing mutable was returned
}

func valErr(val string, err error) string { return val + " ; err=" + errText(err) }

// sanit makes an observation valid UTF-8 without losing information (invalid
// bytes become \xNN), so that it survives JSON transport between processes
// byte for byte.
func sanit(s string) string {
	if utf8.ValidString(s) {
		return s
	}
	var sb strings.Builder
	for i := 0; i < len(s); {
		r, n := utf8.DecodeRuneInString(s[i:])
		if r == utf8.RuneError && n == 1 {
			sb.WriteString("\\x" + strconv.FormatUint(uint64(s[i]), 16))
		} else {
			sb.WriteString(s[i : i+n])
		}
		i += n
	}
	return sb.String()
}

func (o outcome) sanitized() outcome {
	o.obs = sanit(o.obs)
	if o.live != nil {
		f := o.live
		o.live = func() string { return sanit(f()) }
	}
	return o
}

func bytesOutcome(b []byte, err error) outcome {
	o := outcome{obs: valErr(strconv.Quote(string(b)), err)}
	if b != nil {
		o.live = func() string { return valErr(strconv.Quote(string(b)), err) }
	}
	return o
}

func stringsText(ss []string) string {
	if ss == nil {
		return "<nil>"
	}
	var sb strings.Builder
	sb.WriteString("[")
	for _, s := range ss {
		sb.WriteString(strconv.Quote(s))
		sb.WriteString(",")
	}
	sb.WriteString("]")
	return sb.String()
}

// ---- per-kind calls ---------------------------------------------------------

type inst struct {
	proj      *Project
	js        *jschema.JSchema
	rs        *regex.RSchema
	en        *enum.Enum
	donor     *inst           // registers the donor's type and rule objects instead of fresh ones (Project.ShareWith)
	ruleObjs  []*enum.Enum    // the rule objects registered with js, in declared order
	typeObjs  []schema.Schema // the type objects registered with js, in declared order
	built     bool
	dead      bool // an injected failure hit this object: no further oracle on it
	retired   bool // the caller's buffer its text lived in was given to another object: its life is over
	bufLoaded bool // the text has been copied into the caller's buffer (content() was called)
	nEx       int  // number of Example() calls made on an rschema

	// its type objects are registered with another schema of the world as well: an
	// explicit mutator (ensureap) is applied to its own tree only - what a caller does
	// to an object it shares shows in everybody who shares it, by design (FA12)
	sharesTypes bool
}

const maxRegexExamples = 4

func newSchemaFor(t TypeSpec) schema.Schema {
	if t.Kind == "r" {
		return regex.New(t.Name, t.Text)
	}
	return jschema.New(t.Name, t.Text)
}

func identity(n int) []int {
	p := make([]int, n)
	for i := range p {
		p[i] = i
	}
	return p
}

func validPerm(p []int, n int) bool {
	if len(p) != n {
		return false
	}
	seen := make([]bool, n)
	for _, x := range p {
		if x < 0 || x >= n || seen[x] {
			return false
		}
		seen[x] = true
	}
	return true
}

// build creates the object and registers rules then types in the given
// orders; the observation lists each registration's result in *declared*
// order, so it is comparable across registration orders.
func (in *inst) build(op *Op) outcome { return in.rawBuild(op).sanitized() }

// The caller's reusable buffers (Project.Buf). They live as long as the process:
// the same memory carries one text after another, as in a caller that reads every
// file into one buffer.
var callerBufs [4][1 << 16]byte

// content returns what the constructors are given: the text itself, or the text
// copied into the caller's buffer and handed over as a []byte slice of it.
func (in *inst) content() any {
	p := in.proj
	if p.Buf <= 0 || p.Buf >= len(callerBufs) || len(p.Text) == 0 || len(p.Text) > len(callerBufs[0]) {
		return p.Text
	}
	b := callerBufs[p.Buf][:len(p.Text):len(p.Text)]
	copy(b, p.Text)
	in.bufLoaded = true
	return b
}

func (in *inst) rawBuild(op *Op) outcome {
	p := in.proj
	in.built = true
	switch p.Kind {
	case "jschema":
		var oo []jschema.Option
		if p.Opt == "optkeys" {
			oo = append(oo, func(s *jschema.JSchema) { s.AreKeysOptionalByDefault = true })
		}
		if b, ok := in.content().([]byte); ok {
			in.js = jschema.New(p.Name, b, oo...)
		} else {
			in.js = jschema.New(p.Name, p.Text, oo...)
		}
		rperm, tperm := op.RPerm, op.TPerm
		if !validPerm(rperm, len(p.Rules)) {
			rperm = identity(len(p.Rules))
		}
		if !validPerm(tperm, len(p.Types)) {
			tperm = identity(len(p.Types))
		}
		rres := make([]string, len(p.Rules))
		// rule objects created before the tasks started are shared between tasks:
		// their slice is never written again (another task's build reads it)
		pre := in.ruleObjs
		if len(pre) != len(p.Rules) {
			pre = nil
			in.ruleObjs = make([]*enum.Enum, len(p.Rules))
		}
		for _, i := range rperm {
			r := p.Rules[i]
			var ro *enum.Enum
			switch d := in.donor; {
			case i < len(pre) && pre[i] != nil:
				ro = pre[i]
			case d != nil && p.RulesOnly && i < len(d.ruleObjs) && d.ruleObjs[i] != nil && d.proj.Rules[i] == r:
				ro = d.ruleObjs[i] // the donor's rule objects exist from before the tasks started
			case d != nil && !p.RulesOnly && d.built && i < len(d.ruleObjs) && d.ruleObjs[i] != nil && d.proj.Rules[i] == r:
				ro = d.ruleObjs[i]
			default:
				ro = enum.New(r.Name, r.Text)
			}
			if pre == nil {
				in.ruleObjs[i] = ro
			}
			rres[i] = safeStr(func() string { return errText(in.js.AddRule(r.Name, ro)) })
		}
		tres := make([]string, len(p.Types))
		in.typeObjs = make([]schema.Schema, len(p.Types))
		for _, i := range tperm {
			t := p.Types[i]
			to := newSchemaFor(t)
			if d := in.donor; d != nil && !p.RulesOnly && d.built && i < len(d.typeObjs) && d.typeObjs[i] != nil && d.proj.Types[i] == t {
				to = d.typeObjs[i]
			}
			in.typeObjs[i] = to
			tres[i] = safeStr(func() string { return errText(in.js.AddType(t.Name, to)) })
		}
		var sb strings.Builder
		for i, r := range p.Rules {
			sb.WriteString("rule " + r.Name + ": " + rres[i] + "\n")
		}
		for i, t := range p.Types {
			sb.WriteString("type " + t.Name + ": " + tres[i] + "\n")
		}
		return outcome{obs: sb.String()}
	case "rschema":
		var oo []regex.Option
		if strings.HasPrefix(p.Opt, "seed=") {
			n, _ := strconv.ParseInt(p.Opt[5:], 10, 64)
			oo = append(oo, regex.WithGeneratorSeed(n))
		}
		if b, ok := in.content().([]byte); ok {
			in.rs = regex.New(p.Name, b, oo...)
		} else {
			in.rs = regex.New(p.Name, p.Text, oo...)
		}
	case "enum":
		if b, ok := in.content().([]byte); ok {
			in.en = enum.New(p.Name, b)
		} else {
			in.en = enum.New(p.Name, p.Text)
		}
	}
	return outcome{obs: "ok"}
}

func (in *inst) schema() schema.Schema {
	if in.js != nil {
		return in.js
	}
	return in.rs
}

// call performs one read-only operation. The observation key is op kind (plus
// the call index for the stateful regex Example()).
func (in *inst) call(kind string, sharedObj bool) (string, outcome) {
	key, out := in.rawCall(kind, sharedObj)
	return key, out.sanitized()
}

func (in *inst) rawCall(kind string, sharedObj bool) (key string, out outcome) {
	key = kind
	defer func() {
		if r := recover(); r != nil {
			out = outcome{obs: "PANIC:" + panicText(r)}
		}
	}()
	p := in.proj
	switch p.Kind {
	case "jschema", "rschema":
		s := in.schema()
		switch kind {
		case "used":
			ss, err := s.UsedUserTypes()
			o := outcome{obs: valErr(stringsText(ss), err)}
			if ss != nil {
				o.live = func() string { return valErr(stringsText(ss), err) }
			}
			return key, o
		case "len":
			n, err := s.Len()
			return key, outcome{obs: valErr(strconv.FormatUint(uint64(n), 10), err)}
		case "check":
			return key, outcome{obs: errText(s.Check())}
		case "ast":
			an, err := s.GetAST()
			return key, outcome{obs: valErr(astText(&an), err), live: func() string { return valErr(astText(&an), err) }}
		case "example":
			if in.rs != nil && !sharedObj {
				// the regex generator is stateful by design: the k-th answer is
				// the observable (a shared object is judged by O-lin instead)
				key = "example#" + strconv.Itoa(in.nEx)
				in.nEx++
			}
			b, err := s.Example()
			return key, bytesOutcome(b, err)
		case "pattern":
			if in.rs == nil {
				return key, outcome{obs: "n/a"}
			}
			pt, err := in.rs.Pattern()
			return key, outcome{obs: valErr(strconv.Quote(pt), err)}
		case "openapi":
			if err := s.Check(); err != nil {
				return key, outcome{obs: "n/a: " + errText(err)}
			}
			so := openapi.NewSchemaObject(s)
			b, err := so.MarshalJSON()
			// the same object again with a description set
			so.SetDescription("d\n\"q\" <é>")
			b2, err2 := so.MarshalJSON()
			o := outcome{obs: valErr(strconv.Quote(string(b)), err) + "\nwith description: " + valErr(strconv.Quote(string(b2)), err2)}
			if b != nil || b2 != nil {
				o.live = func() string {
					return valErr(strconv.Quote(string(b)), err) + "\nwith description: " + valErr(strconv.Quote(string(b2)), err2)
				}
			}
			return key, o
		case "inner":
			// The internal tree (exported: JSchema.Inner; it is what a validator
			// walks) after compilation: the same for the same input, and untouched
			// by whatever is processed later.
			if in.js == nil {
				return key, outcome{obs: "n/a"}
			}
			err := s.Check()
			js := in.js
			f := func() string { return "check=" + errText(err) + "\n" + innerText(js) }
			return key, outcome{obs: f(), live: f}
		case "ensureap":
			// what a validator does before it validates objects: every object node
			// gets an additionalProperties constraint unless it has one
			if in.js == nil {
				return key, outcome{obs: "n/a"}
			}
			_ = s.Check()
			return key, outcome{obs: ensureAPText(in.js, !in.sharesTypes)}
		case "vany":
			return key, outcome{obs: safeStr(func() string {
				var sb strings.Builder
				d := &innerDumper{sb: &sb, seen: map[string]bool{}}
				d.node(ischema.VirtualNodeForAny(), 0)
				return sb.String()
			})}
		case "rules":
			// The rule objects stay valid objects in the caller's hands after they
			// were registered: what they report must not depend on what the schema
			// they were given to did with them.
			if in.js == nil || len(in.ruleObjs) == 0 {
				return key, outcome{obs: "n/a"}
			}
			type rr struct {
				head string
				an   schema.ASTNode
				vv   []enum.Value
			}
			var rs []rr
			for i, ro := range in.ruleObjs {
				if ro == nil {
					continue
				}
				n, e1 := ro.Len()
				e2 := ro.Check()
				an, e3 := ro.GetAST()
				vv, e4 := ro.Values()
				rs = append(rs, rr{head: "rule " + p.Rules[i].Name + ": len=" + valErr(strconv.FormatUint(uint64(n), 10), e1) + " check=" + errText(e2) +
					" asterr=" + errText(e3) + " valerr=" + errText(e4), an: an, vv: vv})
			}
			f := func() string {
				var sb strings.Builder
				for i := range rs {
					sb.WriteString(rs[i].head + " ast=" + astText(&rs[i].an) + " values=" + enumValuesText(rs[i].vv) + "\n")
				}
				return sb.String()
			}
			return key, outcome{obs: f(), live: f}
		case "types":
			// Likewise the type objects. They are asked after the schema they were
			// registered with has been compiled (compilation completes the types'
			// nodes in place, by design), so the position of this call among the
			// other calls does not matter.
			if in.js == nil || len(in.typeObjs) == 0 {
				return key, outcome{obs: "n/a"}
			}
			_ = s.Check()
			type tr struct {
				head string
				an   schema.ASTNode
				ex   []byte
				used []string
			}
			var ts []tr
			for i, to := range in.typeObjs {
				if to == nil {
					continue
				}
				n, e1 := to.Len()
				e2 := to.Check()
				an, e3 := to.GetAST()
				used, e4 := to.UsedUserTypes()
				head := "type " + p.Types[i].Name + ": len=" + valErr(strconv.FormatUint(uint64(n), 10), e1) + " check=" + errText(e2) +
					" asterr=" + errText(e3) + " usederr=" + errText(e4)
				var ex []byte
				if _, isJ := to.(*jschema.JSchema); isJ {
					// (a regex type's Example() is stateful by design and not asked here)
					var e5 error
					ex, e5 = to.Example()
					head += " exerr=" + errText(e5)
				} else if rt, ok := to.(*regex.RSchema); ok {
					pt, e5 := rt.Pattern()
					head += " pattern=" + valErr(strconv.Quote(pt), e5)
				}
				ts = append(ts, tr{head: head, an: an, ex: ex, used: used})
			}
			f := func() string {
				var sb strings.Builder
				for i := range ts {
					sb.WriteString(ts[i].head + " ast=" + astText(&ts[i].an) + " ex=" + strconv.Quote(string(ts[i].ex)) + " used=" + stringsText(ts[i].used) + "\n")
				}
				return sb.String()
			}
			return key, outcome{obs: f(), live: f}
		case "deref":
			if err := s.Check(); err != nil {
				return key, outcome{obs: "n/a: " + errText(err)}
			}
			infs := openapi.Dereference(s)
			var top openapi.SchemaInformer
			if in.js != nil {
				top = openapi.NewJSchemaInfo(in.js)
			} else if in.rs != nil {
				top = openapi.NewRSchemaInfo(in.rs)
			}
			f := func() string {
				var sb strings.Builder
				for _, inf := range infs {
					writeInformer(&sb, inf, 0)
				}
				if top != nil {
					sb.WriteString("schema info: ")
					writeInformer(&sb, top, 0)
				}
				return sb.String()
			}
			// the informers stay valid objects in the caller's hands: what they
			// report later must be what they reported when they were returned
			return key, outcome{obs: f(), live: f}
		}
	case "enum":
		switch kind {
		case "len":
			n, err := in.en.Len()
			return key, outcome{obs: valErr(strconv.FormatUint(uint64(n), 10), err)}
		case "check":
			return key, outcome{obs: errText(in.en.Check())}
		case "ast":
			an, err := in.en.GetAST()
			return key, outcome{obs: valErr(astText(&an), err), live: func() string { return valErr(astText(&an), err) }}
		case "values":
			vv, err := in.en.Values()
			f := func() string { return valErr(enumValuesText(vv), err) }
			return key, outcome{obs: f(), live: f}
		}
	case "jsondoc":
		// json.Document is stateful and documented as not thread safe: every
		// call works on a fresh document of the same text.
		var d schema.Document
		var oo []fjson.Option
		if strings.HasPrefix(p.Name, "trail") {
			oo = append(oo, fjson.AllowTrailingNonSpaceCharacters())
		}
		if b, ok := in.content().([]byte); ok {
			d = fjson.New(p.Name, b, oo...)
		} else {
			d = fjson.New(p.Name, p.Text, oo...)
		}
		switch kind {
		case "len":
			n, err := d.Len()
			return key, outcome{obs: valErr(strconv.FormatUint(uint64(n), 10), err)}
		case "check":
			return key, outcome{obs: errText(d.Check())}
		case "lexemes":
			var sb strings.Builder
			for i := 0; i < 100000; i++ {
				lex, err := d.NextLexeme()
				if err != nil {
					if errors.Is(err, io.EOF) {
						sb.WriteString("EOF")
					} else {
						sb.WriteString("err=" + errText(err))
					}
					break
				}
				sb.WriteString(lex.Type().String())
				sb.WriteString("[" + strconv.Itoa(int(lex.Begin())) + ":" + strconv.Itoa(int(lex.End())) + "]=")
				sb.WriteString(strconv.Quote(safeStr(func() string { return lex.Value().String() })))
				sb.WriteString(";")
			}
			return key, outcome{obs: sb.String()}
		}
	case "guess":
		switch kind {
		case "guess":
			t, err := schema.GuessSchemaType([]byte(p.Text))
			return key, outcome{obs: valErr(string(t), err)}
		case "jguess":
			g := jjson.Guess(jbytes.NewBytes(p.Text))
			var sb strings.Builder
			b2s := func(name string, f func() bool) {
				sb.WriteString(name + "=" + safeStr(func() string { return strconv.FormatBool(f()) }) + " ")
			}
			b2s("int", g.IsInteger)
			b2s("float", g.IsFloat)
			b2s("null", g.IsNull)
			b2s("bool", g.IsBoolean)
			b2s("str", g.IsString)
			b2s("short", g.IsShortcut)
			b2s("obj", g.IsObject)
			b2s("arr", g.IsArray)
			sb.WriteString("jt=" + safeStr(func() string { return strconv.Itoa(int(g.JsonType())) }))
			sb.WriteString(" ljt=" + safeStr(func() string { return strconv.Itoa(int(g.LiteralJsonType())) }))
			sb.WriteString(" num=" + safeStr(func() string {
				n, err := g.Number()
				if err != nil {
					return "err=" + errText(err)
				}
				return n.String()
			}))
			return key, outcome{obs: sb.String()}
		}
	}
	return key, outcome{obs: "n/a"}
}

func enumValuesText(vv []enum.Value) string {
	if vv == nil {
		return "<nil>"
	}
	var sb strings.Builder
	for _, v := range vv {
		sb.WriteString("(" + string(v.Type) + " " + strconv.Quote(v.Value.String()) + " c=" + strconv.Quote(v.Comment) + ")")
	}
	return sb.String()
}

func writeInformer(sb *strings.Builder, inf openapi.SchemaInformer, depth int) {
	if depth > 6 {
		sb.WriteString("<deep>")
		return
	}
	sb.WriteString(strings.Repeat(" ", depth))
	sb.WriteString("info type=" + strconv.Itoa(int(inf.Type())) + " ann=" + strconv.Quote(safeStr(inf.Annotation)))
	sb.WriteString(" so=" + safeStr(func() string {
		b, err := inf.SchemaObject().MarshalJSON()
		return valErr(strconv.Quote(string(b)), err)
	}))
	if pi, ok := inf.(openapi.PropertyInformer); ok {
		sb.WriteString(" key=" + strconv.Quote(safeStr(pi.Key)) + " opt=" + safeStr(func() string { return strconv.FormatBool(pi.Optional()) }))
	}
	sb.WriteString("\n")
	if oi, ok := inf.(openapi.ObjectInformer); ok {
		props := func() (pp []openapi.PropertyInformer) {
			defer func() {
				if r := recover(); r != nil {
					sb.WriteString(strings.Repeat(" ", depth) + " props PANIC:" + panicText(r) + "\n")
				}
			}()
			return oi.PropertiesInfos()
		}()
		for _, p := range props {
			writeInformer(sb, p, depth+1)
		}
	}
}

// scriptKinds is the canonical read-only call sequence per project kind.
func scriptKinds(kind string) []string {
	switch kind {
	case "jschema":
		// "rules" comes first: the reference asks the rule objects before the schema
		// has been loaded, a history mostly after - what a rule object reports must
		// not depend on what the schema it was given to did with it (c10g)
		return []string{"rules", "used", "len", "check", "ast", "example", "openapi", "deref", "types", "inner", "ensureap", "vany"}
	case "rschema":
		return []string{"used", "len", "check", "ast", "pattern", "example", "example", "example", "example", "openapi", "deref"}
	case "enum":
		return []string{"len", "check", "ast", "values"}
	case "jsondoc":
		return []string{"len", "check", "lexemes"}
	case "guess":
		return []string{"guess", "jguess"}
	}
	return nil
}

// ---- the internal tree ----------------------------------------------------------

type innerDumper struct {
	sb    *strings.Builder
	types map[string]ischema.Type
	seen  map[string]bool
}

var unnamedRe = regexp.MustCompile(`#0x[0-9a-f]+`)

func (d *innerDumper) node(n ischema.Node, depth int) {
	sb := d.sb
	if n == nil {
		sb.WriteString("<nil>")
		return
	}
	if depth > 40 {
		sb.WriteString("<deep>")
		return
	}
	sb.WriteString("(" + safeStr(func() string { return n.Type().String() }))
	sb.WriteString(" st=" + safeStr(func() string { return string(n.SchemaType()) }))
	sb.WriteString(" rt=" + safeStr(n.RealType))
	sb.WriteString(" v=" + strconv.Quote(safeStr(func() string { return n.Value().String() })))
	sb.WriteString(" c=" + strconv.Quote(safeStr(n.Comment)))
	sb.WriteString(" inh=" + strconv.Quote(safeStr(n.InheritedFrom)))
	sb.WriteString(" ncons=" + safeStr(func() string {
		k := n.NumberOfConstraints()
		if n.Constraint(constraint.AdditionalPropertiesConstraintType) != nil {
			k-- // reported by the ensureap call, whose position among the calls is free
		}
		return strconv.Itoa(k)
	}))
	sb.WriteString(" cons=[")
	var refs []string
	func() {
		defer func() {
			if r := recover(); r != nil {
				sb.WriteString("<panic:" + panicText(r) + ">")
			}
		}()
		cm := n.ConstraintMap()
		if cm == nil {
			return
		}
		cm.EachSafe(func(k constraint.Type, v constraint.Constraint) {
			if k == constraint.AdditionalPropertiesConstraintType {
				return
			}
			str := safeStr(v.String)
			sb.WriteString(safeStr(k.String) + "=" + strconv.Quote(str) + ";")
			refs = append(refs, unnamedRe.FindAllString(str, -1)...)
		})
	}()
	sb.WriteString("]")
	if mv, ok := n.(*ischema.MixedValueNode); ok {
		tt := safeStr(func() string { return strings.Join(mv.GetTypes(), "|") })
		sb.WriteString(" types=" + tt)
		refs = append(refs, unnamedRe.FindAllString(tt, -1)...)
	}
	// an unnamed type is shown where it is first referred to, so the text does not
	// depend on the order in which the library happened to register them
	for _, name := range refs {
		if d.seen[name] {
			continue
		}
		d.seen[name] = true
		sb.WriteString(" {" + name + ": ")
		if t, ok := d.types[name]; ok && t.Schema != nil {
			d.node(t.Schema.RootNode(), depth+1)
		} else {
			sb.WriteString("<unresolved>")
		}
		sb.WriteString("}")
	}
	switch b := n.(type) {
	case *ischema.ObjectNode:
		ch := b.Children()
		sb.WriteString(" obj[")
		for i, c := range ch {
			k := b.Key(i)
			sb.WriteString(strconv.Quote(k.Key))
			if k.IsShortcut {
				sb.WriteString("~")
			}
			sb.WriteString(":")
			d.node(c, depth+1)
			sb.WriteString(",")
		}
		sb.WriteString("]")
	case *ischema.ArrayNode:
		sb.WriteString(" arr[")
		for _, c := range b.Children() {
			d.node(c, depth+1)
			sb.WriteString(",")
		}
		sb.WriteString("]")
	}
	sb.WriteString(")")
}

// normUnnamed renames the address-derived names of unnamed types by order of
// first appearance: those names are internal, only their structure is compared.
func normUnnamed(s string) string {
	seen := map[string]int{}
	return unnamedRe.ReplaceAllStringFunc(s, func(t string) string {
		n, ok := seen[t]
		if !ok {
			n = len(seen) + 1
			seen[t] = n
		}
		return "#U" + strconv.Itoa(n)
	})
}

func sortedNamedTypes(js *jschema.JSchema) []string {
	var names []string
	for name := range js.Inner.TypesList() {
		if !strings.HasPrefix(name, "#") {
			names = append(names, name)
		}
	}
	sort.Strings(names)
	return names
}

func innerText(js *jschema.JSchema) string {
	return normUnnamed(safeStr(func() string {
		if js.Inner == nil {
			return "<no inner>"
		}
		var sb strings.Builder
		types := js.InnerTypesList()
		d := &innerDumper{sb: &sb, types: types, seen: map[string]bool{}}
		sb.WriteString("root: ")
		d.node(js.Inner.RootNode(), 0)
		sb.WriteString("\n")
		unnamed := 0
		for name := range types {
			if strings.HasPrefix(name, "#") {
				unnamed++
			}
		}
		for _, name := range sortedNamedTypes(js) {
			sb.WriteString("type " + name + ": ")
			if t := types[name]; t.Schema != nil {
				d.node(t.Schema.RootNode(), 1)
			} else {
				sb.WriteString("<nil schema>")
			}
			sb.WriteString("\n")
		}
		sb.WriteString("unnamed=" + strconv.Itoa(unnamed) + " shown=" + strconv.Itoa(len(d.seen)))
		return sb.String()
	}))
}

func walkNodes(n ischema.Node, depth int, f func(ischema.Node)) {
	if n == nil || depth > 40 {
		return
	}
	f(n)
	switch b := n.(type) {
	case *ischema.ObjectNode:
		for _, c := range b.Children() {
			walkNodes(c, depth+1, f)
		}
	case *ischema.ArrayNode:
		for _, c := range b.Children() {
			walkNodes(c, depth+1, f)
		}
	}
}

func ensureAPText(js *jschema.JSchema, intoTypes bool) string {
	return safeStr(func() string {
		if js.Inner == nil {
			return "<no inner>"
		}
		var sb strings.Builder
		visit := func(n ischema.Node) {
			on, ok := n.(*ischema.ObjectNode)
			if !ok {
				return
			}
			on.EnsureAdditionalProperties()
			c := on.Constraint(constraint.AdditionalPropertiesConstraintType)
			if c == nil {
				sb.WriteString("<none>;")
				return
			}
			sb.WriteString(safeStr(c.String) + ";")
		}
		sb.WriteString("root: ")
		walkNodes(js.Inner.RootNode(), 0, visit)
		if !intoTypes {
			return sb.String()
		}
		types := js.Inner.TypesList()
		for _, name := range sortedNamedTypes(js) {
			sb.WriteString(" type " + name + ": ")
			if t := types[name]; t.Schema != nil {
				walkNodes(t.Schema.RootNode(), 1, visit)
			}
		}
		return sb.String()
	})
}
