package main

import (
	"encoding/json"
	"os"
	"path/filepath"
	"regexp"
	"strconv"
	"strings"

	"github.com/jsightapi/jsight-schema-core/simrt"
)

// ---- PRNG for workload generation (explore mode only; the generated World is
// stored in the replay file, so a replay does not depend on this generator) ----

type rng struct {
	s     uint64
	focus string // swarm: this run's projects are mostly of this kind ("" = the default mix)
	small bool   // several tasks will work on the projects at once: keep single inputs moderate (step cap)
}

func (r *rng) next() uint64 {
	r.s += 0x9e3779b97f4a7c15
	z := r.s
	z = (z ^ (z >> 30)) * 0xbf58476d1ce4e5b9
	z = (z ^ (z >> 27)) * 0x94d049bb133111eb
	return z ^ (z >> 31)
}
func (r *rng) n(n int) int {
	if n <= 0 {
		return 0
	}
	return int(r.next() % uint64(n))
}
func (r *rng) pct(p int) bool          { return r.n(100) < p }
func (r *rng) pick(ss []string) string { return ss[r.n(len(ss))] }
func (r *rng) perm(n int) []int {
	p := identity(n)
	for i := n - 1; i > 0; i-- {
		j := r.n(i + 1)
		p[i], p[j] = p[j], p[i]
	}
	return p
}

func hashSeed(parts ...uint64) uint64 {
	h := uint64(0x9e3779b97f4a7c15)
	for _, p := range parts {
		h = (h ^ p) * 0xbf58476d1ce4e5b9
		h ^= h >> 29
	}
	return h
}

// ---- corpus ------------------------------------------------------------------

type Corpus struct {
	JValid   []string `json:"jschema_valid"`
	JRefs    []string `json:"jschema_refs"`
	JInvalid []string `json:"jschema_invalid"`
	Enum     []string `json:"enum"`
	Regex    []string `json:"regex"`
	JSON     []string `json:"json"`
	Guess    []string `json:"guess"`
}

var corpus Corpus

// bigWorlds: the thorough tier also draws larger worlds (more objects and
// operations per history, more tasks). Set from the tier by the worker and, for
// re-generating a world from its seed, by the coordinator.
var bigWorlds bool

// corpusProjects are whole projects (root + types + rules) written by hand for this
// purpose (corpus/projects.jsonl): combinations of language features that are
// accepted far enough to reach the code behind them, which random composition of
// single texts rarely produces.
var corpusProjects []Project

func loadCorpus(path string) {
	b, err := os.ReadFile(path)
	if err != nil {
		fatalExit("corpus: " + err.Error())
	}
	if err := json.Unmarshal(b, &corpus); err != nil {
		fatalExit("corpus: " + err.Error())
	}
	if pb, err := os.ReadFile(filepath.Join(filepath.Dir(path), "projects.jsonl")); err == nil {
		for _, line := range strings.Split(string(pb), "\n") {
			if strings.TrimSpace(line) == "" {
				continue
			}
			var cp struct {
				Root  string     `json:"root"`
				Types []TypeSpec `json:"types"`
				Rules []RuleSpec `json:"rules"`
			}
			if json.Unmarshal([]byte(line), &cp) != nil || cp.Root == "" {
				continue
			}
			for i := range cp.Types {
				if cp.Types[i].Kind != "r" {
					cp.Types[i].Kind = "j"
				}
			}
			corpusProjects = append(corpusProjects, Project{Kind: "jschema", Name: "root", Text: cp.Root, Types: cp.Types, Rules: cp.Rules})
		}
	}
	// a few hand-written entries aimed at the places where nondeterminism lives
	corpus.Guess = append(corpus.Guess, `"a.b"`, `"1.5"`, `"1e2"`, `"-0"`, `1.0`, `1e2`, `"true"`, `"null"`, `12.`, `"12"`)
	corpus.Enum = append(corpus.Enum, `["a.b", "1.5", 1]`, `["1e2", 1e2, "x"]`, `[1, 1.0, "1"]`, `["a.b"]`)
	for _, br := range badRules {
		corpus.JInvalid = append(corpus.JInvalid, `"abc" // `+br, "{\n  \"k\": 1 // "+br+"\n}")
	}
	corpus.Regex = append(corpus.Regex, `/[a-/`, `/(/`, `/a{2,1}/`, `/\\l/`)
}

var refRe = regexp.MustCompile(`@[A-Za-z0-9_]+`)
var keyRe = regexp.MustCompile(`\n\s*@[A-Za-z0-9_]+\s*:`)

// ---- JSight grammar (small, aimed at: >=2 broken types, unnamed `or` types,
// allOf DAGs and cycles, key shortcuts, named enums with ambiguous literals,
// regex types, missing types) --------------------------------------------------

type gctx struct {
	r     *rng
	names []string // type names that may be referenced
	enums []string // enum rule names that may be referenced
	depth int
}

// badRules are annotation values that are malformed or contradict the value
// they annotate: each drives a different rejection path (constraint
// constructors, compiler, checker). The same bad text recurs across objects
// and runs, so state remembered from a failed attempt has something to hit.
var badRules = []string{
	`{regex: "[a-"}`, `{regex: "x-(\\d"}`, `{regex: "*"}`, `{regex: 5}`,
	`{min: "a"}`, `{min: 5, max: 1}`, `{minLength: -1}`, `{maxLength: 1.5}`, `{precision: 0}`, `{precision: 2}`,
	`{type: "nope"}`, `{type: "integer", type: "string"}`, `{enum: []}`, `{enum: [1, 1]}`, `{enum: "x"}`,
	`{or: []}`, `{or: [{type: "nope"}]}`, `{or: [{type: "integer"}]}`, `{const: 5}`, `{optional: 1}`, `{nullable: "yes"}`,
	`{additionalProperties: "nope"}`, `{allOf: "@zz"}`, `{minItems: 5}`, `{foo: 1}`, `{exclusiveMinimum: true}`,
	`{type: "email", minLength: 1}`, `{type: "uuid", regex: "a"}`, `{type: "any", min: 1}`, `{type: "@zz1"}`, `{serializeFormat: "x"}`,
}

// ruleAtoms are single rules; a "rule soup" annotation combines a type with a
// random handful of them, so that one node violates several rules at once (which
// error is reported then depends on the order in which the library looks).
var ruleTypes = []string{"string", "integer", "float", "decimal", "boolean", "email", "uri", "uuid", "date", "datetime", "any", "null", "enum", "mixed", "object", "array"}
var ruleAtoms = []string{
	`minLength: 2`, `maxLength: 256`, `regex: "^a"`, `min: 1`, `max: 100`, `exclusiveMinimum: true`, `exclusiveMaximum: true`,
	`precision: 2`, `optional: true`, `nullable: true`, `const: true`, `enum: ["a", 1]`, `minItems: 1`, `maxItems: 3`,
	`additionalProperties: true`, `allOf: "@a"`, `or: ["string", "integer"]`, `serializeFormat: "x"`,
}

var ruleFamilies = [][]string{
	{`minLength: 2`, `maxLength: 256`, `regex: "^a"`},
	{`min: 1`, `max: 100`, `exclusiveMinimum: true`, `exclusiveMaximum: true`, `precision: 2`},
	{`minItems: 1`, `maxItems: 3`},
	{`optional: true`, `nullable: true`, `const: true`},
	{`additionalProperties: true`, `allOf: "@a"`, `or: ["string", "integer"]`, `enum: ["a", 1]`},
}

func (g *gctx) ruleSoup() (string, string) {
	r := g.r
	val := r.pick([]string{`"user@example.com"`, `"abc"`, `12`, `1.25`, `true`, `null`, `"2021-01-02"`, `"550e8400-e29b-41d4-a716-446655440000"`, `"http://a.b/c"`})
	var parts []string
	if r.pct(85) {
		parts = append(parts, `type: "`+r.pick(ruleTypes)+`"`)
	}
	if r.pct(60) {
		// two or three rules of one family: all of them apply (or are all banned)
		// together, so which one is complained about first is the library's choice
		fam := ruleFamilies[r.n(len(ruleFamilies))]
		n := 2 + r.n(2)
		if n > len(fam) {
			n = len(fam)
		}
		for _, i := range r.perm(len(fam))[:n] {
			parts = append(parts, fam[i])
		}
	} else {
		n := 1 + r.n(3)
		for _, i := range r.perm(len(ruleAtoms))[:n] {
			parts = append(parts, ruleAtoms[i])
		}
	}
	return val, "{" + strings.Join(parts, ", ") + "}"
}

func (g *gctx) scalar() (string, string) {
	r := g.r
	if len(g.enums) > 0 && r.pct(12) {
		return r.pick([]string{`"a.b"`, `1`, `"x"`, `"red"`, `true`}), `{enum: ` + r.pick(g.enums) + `}`
	}
	if r.pct(5) {
		// an empty container on one line, possibly annotated as "may be something
		// else": accepted by Check(), but Example() has nothing to build it from
		alt := `{type: "array"}`
		if len(g.names) > 0 && r.pct(40) {
			alt = `{type: "` + r.pick(g.names) + `"}`
		}
		return r.pick([]string{`{}`, `[]`}), r.pick([]string{``, `{or: [{type: "object"}, ` + alt + `]}`, `{or: [` + alt + `, {type: "string"}]}`,
			`{type: "object"}`, `{type: "array"}`, `{type: "any"}`, `{additionalProperties: true}`, `{minItems: 0}`, `{optional: true}`})
	}
	if r.pct(9) {
		return r.pick([]string{`"abc"`, `1`, `"x"`, `12.5`, `true`}), r.pick(badRules)
	}
	if r.pct(10) {
		return g.ruleSoup()
	}
	switch r.n(12) {
	case 0:
		if r.pct(25) {
			k := r.n(100000)
			return strconv.Itoa(k + r.n(3)), `{min: ` + strconv.Itoa(k) + `, max: ` + strconv.Itoa(k+1+r.n(50)) + `}`
		}
		return strconv.Itoa(r.n(200) - 50), []string{``, `{min: 0}`, `{type: "integer"}`, `{max: 1000, min: -100}`, `{const: true}`, `{optional: true}`, `{nullable: true}`}[r.n(7)]
	case 1:
		return `"` + r.pick([]string{"abc", "x", "hello", "a.b", "1.5", "q-1"}) + `"`, []string{``, `{minLength: 1}`, `{type: "string"}`, `{maxLength: 30}`, `{regex: "^[a-z.0-9-]+$"}`, `{optional: true}`}[r.n(6)]
	case 2:
		return r.pick([]string{"true", "false"}), []string{``, `{type: "boolean"}`, `{const: true}`}[r.n(3)]
	case 3:
		return "null", ``
	case 4:
		return r.pick([]string{"1.5", "0.25", "12.00", "-3.14"}), []string{``, `{type: "float"}`, `{precision: 2}`, `{min: -10.5}`, `{type: "decimal", precision: 2}`}[r.n(5)]
	case 5:
		return `"2021-01-02"`, `{type: "date"}`
	case 6:
		return `"a@b.cc"`, `{type: "email"}`
	case 7:
		return `"550e8400-e29b-41d4-a716-446655440000"`, `{type: "uuid"}`
	case 8:
		// inline enum with ambiguous literals
		return r.pick([]string{`"a.b"`, `1`, `"1.5"`}), `{enum: ["a.b", 1, "1.5", 1.5]}`
	case 9:
		if len(g.enums) > 0 {
			return r.pick([]string{`"a.b"`, `1`, `"x"`}), `{enum: ` + r.pick(g.enums) + `}`
		}
		return `1`, `{type: "any"}`
	case 10:
		if r.pct(60) {
			// `or` over 2-3 rule-set alternatives (each becomes an unnamed type); an
			// alternative may refer to a user type - registered, missing, of another JSON
			// type, or the very type being defined - and fail only when it is checked
			tpool := append([]string{"integer", "string", "float", "boolean", "@zz"}, g.names...)
			extras := []string{`min: 0`, `minLength: 1`, `nullable: true`, `max: 10`, `maxLength: 5`, `regex: "^a"`, `precision: 1`}
			n := 2 + r.n(2)
			var alts []string
			for i := 0; i < n; i++ {
				a := `{type: "` + r.pick(tpool) + `"`
				if r.pct(70) {
					a += ", " + r.pick(extras)
				}
				alts = append(alts, a+"}")
			}
			return r.pick([]string{`1`, `"s"`, `5`, `true`}), `{or: [` + strings.Join(alts, ", ") + `]}`
		}
		// unnamed types through `or` with inline rule sets
		return r.pick([]string{`1`, `"s"`, `5`}), r.pick([]string{
			`{or: [{type: "integer", min: 0}, {type: "string"}]}`,
			`{or: [{type: "string", minLength: 1}, {type: "integer"}, {type: "boolean"}]}`,
			`{or: [{type: "integer", min: 5}, {type: "string", maxLength: 3}]}`,
		})
	default:
		if r.pct(50) {
			// `or` over 2-4 type names (built-in and user types), repeats allowed
			pool := append([]string{"string", "integer", "float", "boolean", "email", "uuid", "date", "null"}, g.names...)
			n := 2 + r.n(3)
			parts := make([]string, n)
			for i := range parts {
				parts[i] = `"` + r.pick(pool) + `"`
				if i >= 1 && r.pct(30) {
					parts[i] = parts[r.n(i)]
				}
			}
			return r.pick([]string{`1`, `"s"`, `true`, `"a@b.cc"`}), `{or: [` + strings.Join(parts, ", ") + `]}`
		}
		if len(g.names) >= 2 {
			a, b := r.pick(g.names), r.pick(g.names)
			return r.pick([]string{`1`, `"s"`, `true`}), `{or: ["` + a + `", "` + b + `"]}`
		}
		return `"2021-01-02T07:23:12+03:00"`, `{type: "datetime"}`
	}
}

// value returns (text-before-annotation, annotation) for a schema value; for
// containers the text spans several lines and the annotation belongs to the
// opening line.
func (g *gctx) value(ind string) string {
	r := g.r
	if g.depth > 3 {
		v, a := g.scalar()
		return v + ann(a)
	}
	g.depth++
	defer func() { g.depth-- }()
	switch c := r.n(20); {
	case c < 7:
		return g.object(ind)
	case c < 10:
		return g.array(ind)
	case c < 13 && len(g.names) > 0:
		if r.pct(35) && len(g.names) > 1 {
			// a union of 2-4 names; the same name may come twice (alternatives that
			// render identically are where de-duplication logic has something to do)
			n := 2 + r.n(3)
			parts := make([]string, n)
			for i := range parts {
				parts[i] = r.pick(g.names)
				if i >= 2 && r.pct(40) {
					parts[i] = parts[r.n(i)]
				}
			}
			return strings.Join(parts, " | ")
		}
		return r.pick(g.names)
	default:
		v, a := g.scalar()
		return v + ann(a)
	}
}

func ann(a string) string {
	if a == "" {
		return ""
	}
	return " // " + a
}

// splitAnn separates a one-line value from its trailing annotation so that a
// comma can be put between them.
func splitAnn(v string) (string, string) {
	if strings.Contains(v, "\n") {
		return v, ""
	}
	if i := strings.Index(v, " // "); i >= 0 {
		return v[:i], v[i:]
	}
	return v, ""
}

// shortcutObject: an object whose members are mostly key shortcuts, with an
// additionalProperties rule, the values drawn from a tiny set so that they repeat
// each other and the rule (what the OpenAPI converter turns into one anyOf list).
func (g *gctx) shortcutObject(ind string) string {
	r := g.r
	vals := []string{r.pick(g.names), r.pick(g.names), `"s"`, `1`, `true`}
	ap := r.pick([]string{`"string"`, `"integer"`, `"` + vals[0] + `"`, `"` + vals[1] + `"`, `false`, `"boolean"`})
	var sb strings.Builder
	sb.WriteString("{ // {additionalProperties: " + ap + "}\n")
	n := 2 + r.n(3)
	in2 := ind + "  "
	used := map[string]bool{}
	for i := 0; i < n; i++ {
		key := r.pick(g.names)
		if used[key] || r.pct(20) {
			key = `"p` + strconv.Itoa(i) + `"`
		}
		used[key] = true
		sb.WriteString(in2 + key + ": " + vals[r.n(len(vals))])
		if i != n-1 {
			sb.WriteString(",")
		}
		sb.WriteString("\n")
	}
	sb.WriteString(ind + "}")
	return sb.String()
}

func (g *gctx) object(ind string) string {
	r := g.r
	if len(g.names) >= 2 && r.pct(6) {
		return g.shortcutObject(ind)
	}
	var sb strings.Builder
	head := ""
	apType, lastShortcutVal := "", ""
	if len(g.names) > 0 && r.pct(25) {
		if r.pct(50) || len(g.names) < 2 {
			head = ` // {allOf: "` + r.pick(g.names) + `"}`
		} else {
			head = ` // {allOf: ["` + r.pick(g.names) + `", "` + r.pick(g.names) + `"]}`
		}
	} else if r.pct(8) {
		// a container whose annotation says it may be something else: accepted, but
		// it has no example of its own (Example() fails where Check() passes)
		alt := `{type: "array"}`
		if len(g.names) > 0 && r.pct(50) {
			alt = `{type: "` + r.pick(g.names) + `"}`
		}
		head = r.pick([]string{` // {or: [{type: "object"}, ` + alt + `]}`, ` // {or: [` + alt + `, {type: "object"}]}`, ` // {type: "object"}`, ` // {type: "mixed"}`, ` // {type: "any"}`})
	} else if r.pct(10) {
		head = r.pick([]string{` // {additionalProperties: true}`, ` // {additionalProperties: "string"}`, ` // {additionalProperties: false}`, ` // {nullable: true}`})
	} else if len(g.names) > 0 && r.pct(8) {
		apType = r.pick(g.names)
		head = ` // {additionalProperties: "` + apType + `"}`
	}
	sb.WriteString("{" + head + "\n")
	n := r.n(4)
	if g.depth == 1 {
		n++
	}
	in2 := ind + "  "
	var keys []string
	for i := 0; i < n; i++ {
		key := `"` + r.pick([]string{"a", "b", "c", "id", "name", "k" + strconv.Itoa(r.n(9))}) + strconv.Itoa(i) + `"`
		if len(g.names) > 0 && (r.pct(7) || (apType != "" && r.pct(50)) || (lastShortcutVal != "" && r.pct(40))) {
			key = r.pick(g.names) // key shortcut
		}
		if i >= 1 && r.pct(4) {
			key = keys[r.n(i)] // a duplicate key: rejected
		}
		keys = append(keys, key)
		v, a := splitAnn(g.value(in2))
		if strings.HasPrefix(key, "@") && len(g.names) > 0 && r.pct(50) {
			// the value of a key shortcut: a user type - often the same one another
			// shortcut of this object, or its additionalProperties rule, names
			v, a = r.pick(g.names), ""
			if apType != "" && r.pct(60) {
				v = apType
			} else if lastShortcutVal != "" && r.pct(50) {
				v = lastShortcutVal
			}
			lastShortcutVal = v
		}
		sb.WriteString(in2 + key + ": " + v)
		if i != n-1 {
			sb.WriteString(",")
		}
		sb.WriteString(a + "\n")
	}
	sb.WriteString(ind + "}")
	return sb.String()
}

func (g *gctx) array(ind string) string {
	r := g.r
	var sb strings.Builder
	head := ""
	if r.pct(20) {
		head = r.pick([]string{` // {minItems: 0}`, ` // {maxItems: 10}`, ` // {minItems: 1, maxItems: 5}`})
	} else if r.pct(8) {
		head = r.pick([]string{` // {or: [{type: "array"}, {type: "object"}]}`, ` // {or: [{type: "array"}, {type: "string"}]}`, ` // {type: "array"}`, ` // {type: "any"}`})
	}
	sb.WriteString("[" + head + "\n")
	n := r.n(3)
	if r.pct(25) {
		n = 3 + r.n(3)
	}
	in2 := ind + "  "
	var elems [][2]string
	for i := 0; i < n; i++ {
		v, a := splitAnn(g.value(in2))
		if i >= 1 && r.pct(30) {
			e := elems[r.n(i)] // the same element again
			v, a = e[0], e[1]
		}
		elems = append(elems, [2]string{v, a})
		sb.WriteString(in2 + v)
		if i != n-1 {
			sb.WriteString(",")
		}
		sb.WriteString(a + "\n")
	}
	sb.WriteString(ind + "]")
	return sb.String()
}

func genSchemaText(r *rng, names, enums []string) string {
	g := &gctx{r: r, names: names, enums: enums}
	return g.value("")
}

// ---- recombination of harvested texts ------------------------------------------
// The harvested JSight texts use every rule of the language; the grammar above
// uses a fraction. Line-level recombination (JSight annotations are per line) gives
// inputs neither has: a repeated line, swapped lines, an annotation moved from one
// text to a line of another, a literal replaced. Most results are rejected, which
// is the point as often as not: which of several problems is reported first, and
// what a failing load leaves behind.

var annRe = regexp.MustCompile(` // \{.*\}\s*$`)

var harvestedAnns []string

func harvestAnns() {
	if harvestedAnns != nil {
		return
	}
	seen := map[string]bool{}
	for _, l := range [][]string{corpus.JValid, corpus.JRefs, corpus.JInvalid} {
		for _, t := range l {
			for _, line := range strings.Split(t, "\n") {
				if m := annRe.FindString(line); m != "" && len(m) < 120 && !seen[m] {
					seen[m] = true
					harvestedAnns = append(harvestedAnns, strings.TrimRight(m, " \t\r"))
				}
			}
		}
	}
	if len(harvestedAnns) == 0 {
		harvestedAnns = []string{` // {optional: true}`}
	}
}

func mutateText(r *rng, t string) string {
	harvestAnns()
	lines := strings.Split(t, "\n")
	for k := 1 + r.n(2); k > 0; k-- {
		i := r.n(len(lines))
		switch r.n(6) {
		case 0: // the same line again (keeps a comma discipline only by luck)
			dup := lines[i]
			if !strings.HasSuffix(strings.TrimSpace(annRe.ReplaceAllString(dup, "")), ",") && i+1 < len(lines) {
				lines[i] = annRe.ReplaceAllString(dup, "") + "," + annRe.FindString(dup)
			}
			lines = append(lines[:i+1], append([]string{dup}, lines[i+1:]...)...)
		case 1: // swap two lines
			j := r.n(len(lines))
			lines[i], lines[j] = lines[j], lines[i]
		case 2, 3: // an annotation from elsewhere
			a := harvestedAnns[r.n(len(harvestedAnns))]
			if annRe.MatchString(lines[i]) {
				lines[i] = annRe.ReplaceAllString(lines[i], a)
			} else if strings.TrimSpace(lines[i]) != "" {
				lines[i] = strings.TrimRight(lines[i], " \t\r") + a
			}
		case 4: // another literal
			lit := r.pick([]string{`"abc"`, `1`, `-1`, `1.5`, `true`, `null`, `"2021-01-02"`, `"a@b.cc"`, `@a`, `@a | @b`, `[]`, `{}`, `""`, `0`})
			for _, re := range []string{`"[^"]*"(\s*,?\s*)$`, `\b\d+(\.\d+)?(\s*,?\s*)$`, `\b(true|false|null)(\s*,?\s*)$`} {
				body := annRe.ReplaceAllString(lines[i], "")
				rx := regexp.MustCompile(re)
				if loc := rx.FindStringIndex(body); loc != nil && strings.Contains(body, ":") {
					tail := ""
					if strings.HasSuffix(strings.TrimSpace(body), ",") {
						tail = ","
					}
					lines[i] = body[:loc[0]] + lit + tail + annRe.FindString(lines[i])
					break
				}
			}
		default: // drop a line
			if len(lines) > 1 {
				lines = append(lines[:i], lines[i+1:]...)
			}
		}
	}
	return strings.Join(lines, "\n")
}

func pickJ(r *rng, l []string) string {
	t := r.pick(l)
	if r.pct(25) {
		t = mutateText(r, t)
	}
	if r.pct(10) {
		t = relayout(r, t)
	}
	return t
}

// ---- torn inputs (F-torn) ----------------------------------------------------

func tear(r *rng, s string) (string, string) {
	if len(s) < 2 {
		return s, ""
	}
	switch r.n(3) {
	case 0:
		k := 1 + r.n(len(s)-1)
		return s[:k], "truncated@" + strconv.Itoa(k)
	case 1:
		k := r.n(len(s))
		c := byte(" {}[]\":,/@|x0\n"[r.n(14)])
		b := []byte(s)
		b[k] = c
		return string(b), "flipped@" + strconv.Itoa(k)
	default:
		k := r.n(len(s))
		l := 1 + r.n(5)
		if k+l > len(s) {
			l = len(s) - k
		}
		return s[:k] + s[k+l:], "deleted@" + strconv.Itoa(k) + "+" + strconv.Itoa(l)
	}
}

// ---- projects ----------------------------------------------------------------

var namePool = []string{"@a", "@b", "@c", "@d", "@e1"}

func genTypeText(r *rng, names, enums []string) (kind, text string) {
	switch c := r.n(100); {
	case c < 40:
		return "j", pickJ(r, corpus.JValid)
	case c < 72:
		return "j", genSchemaText(r, names, enums)
	case c < 80:
		return "j", pickJ(r, corpus.JRefs)
	case c < 90:
		return "j", r.pick(corpus.JInvalid) // a broken type
	default:
		if r.pct(40) {
			return "r", genRegexText(r)
		}
		return "r", r.pick(corpus.Regex)
	}
}

// ---- small grammars for the non-JSight entry points (the harvested corpus has only
// a few dozen enum rules and regexes; state that survives between two inputs of the
// same kind - a pooled scanner, a memo - needs many *different* inputs of that kind,
// valid and failing, after one another) ---------------------------------------------

var jsonScalars = []string{`42`, `0`, `-1`, `3.14`, `12e3`, `1E-2`, `-0.5`, `7`, `100`, `"abc"`, `""`, `"a\"b"`, `"\u0041"`, `"x y"`, `true`, `false`, `null`,
	`"2021-01-02"`, `"a.b"`, `1.50`, `9007199254740993`, `"/"`, `"//"`}
var jsonBroken = []string{`tru`, `nul`, `fals`, `-`, `"abc`, `"a\`, `"\u12`, `1.`, `1e`, `+1`, `.5`, `01`, `truee`, `nulll`, `'a'`, `"a" "b"`, `1 2`, `,`, `:`, `}`, `]`}

func genJSONValue(r *rng, depth int, broken *bool) string {
	if *broken && r.pct(25) {
		*broken = false
		return r.pick(jsonBroken)
	}
	c := r.n(10)
	if depth > 2 {
		c = 9
	}
	sp := r.pick([]string{"", "", " ", "\n", "\t"})
	switch {
	case c < 2:
		n := r.n(4)
		var parts []string
		for i := 0; i < n; i++ {
			parts = append(parts, sp+`"`+r.pick([]string{"a", "b", "k", "id", "x y", ""})+strconv.Itoa(i)+`":`+sp+genJSONValue(r, depth+1, broken))
		}
		return "{" + strings.Join(parts, ",") + sp + "}"
	case c < 4:
		n := r.n(4)
		var parts []string
		for i := 0; i < n; i++ {
			parts = append(parts, sp+genJSONValue(r, depth+1, broken))
		}
		return "[" + strings.Join(parts, ",") + sp + "]"
	default:
		return r.pick(jsonScalars)
	}
}

func genJSONText(r *rng) string {
	broken := r.pct(30)
	t := genJSONValue(r, 0, &broken)
	if broken {
		// the break was not placed yet: cut the text inside, or leave rubbish behind it
		if r.pct(50) && len(t) > 1 {
			t = t[:1+r.n(len(t)-1)]
		} else {
			t += r.pick([]string{" x", ",", "]", " 1", "}"})
		}
	}
	return r.pick([]string{"", "", " ", "\n"}) + t + r.pick([]string{"", "", "", " ", "\n", "\r\n", "  \t"})
}

var enumLiterals = []string{`"a"`, `"b"`, `"red"`, `"green"`, `"a.b"`, `"1.5"`, `1`, `2`, `42`, `1.5`, `3.14`, `1e2`, `-1`, `true`, `false`, `null`, `""`, `"\u0061"`, `"/"`, `"x//y"`, `"CAT"`}

func genEnumText(r *rng) string {
	n := r.n(6)
	multi := r.pct(50)
	var sb strings.Builder
	sb.WriteString(r.pick([]string{"", "", " ", "\n"}))
	sb.WriteString("[")
	if multi {
		sb.WriteString("\n")
	}
	lits := r.perm(len(enumLiterals))
	for i := 0; i < n; i++ {
		if multi && r.pct(25) {
			sb.WriteString("  // " + r.pick([]string{"interline", "colours", "a, b", "x [1]"}) + "\n")
		}
		if multi && r.pct(8) {
			sb.WriteString("  /* block\n     comment */\n")
		}
		lit := enumLiterals[lits[i]]
		if r.pct(6) {
			lit = enumLiterals[lits[0]] // a repeated value: rejected
		}
		if multi {
			sb.WriteString("  ")
		}
		sb.WriteString(lit)
		if i != n-1 {
			sb.WriteString(r.pick([]string{",", ", ", " ,"}))
		}
		if multi {
			if r.pct(30) {
				sb.WriteString(" // " + r.pick([]string{"c", "note: x", "\"q\""}))
			}
			sb.WriteString("\n")
		}
	}
	if multi && r.pct(15) {
		sb.WriteString("  // last\n")
	}
	sb.WriteString("]")
	switch r.n(10) {
	case 0:
		sb.WriteString(" // the end") // ends inside an inline comment, no newline
	case 1:
		sb.WriteString(" // the end\n")
	case 2:
		sb.WriteString("\n")
	case 3:
		sb.WriteString(" x")
	case 4:
		sb.WriteString("  \t ")
	}
	t := sb.String()
	if r.pct(12) {
		t = r.pick([]string{`[1,]`, `[,1]`, `[`, `[1 2]`, `{}`, `"a"`, `[[1]]`, `[{}]`, `[1, // c`, `[1] // c\n x`, `[tru]`, `[1, nul`, `["a`, `[-]`})
	}
	return t
}

var regexBodies = []string{`[a-z]{1,3}`, `\\d+`, `foo-\\d`, `(a|b)c`, `^x.y$`, `[A-Z][a-z]*`, `a{2,3}`, `\\w+@\\w+\\.com`, `[^0-9]`, `(?:ab)+`, `x?y*`, `\\/`, `.`, `\\x41`, `世界`,
	// patterns a string generator that knows nothing of anchors and word boundaries cannot satisfy (seeded change c09l)
	`a\\bb`, `\\Bfoo\\b `, `x^y`, `a$b`}

func genRegexText(r *rng) string {
	t := "/" + r.pick(regexBodies) + r.pick([]string{"", "", r.pick(regexBodies)}) + "/"
	switch r.n(12) {
	case 0:
		t = t[:len(t)-1] // no closing slash
	case 1:
		t = t[1:] // no opening slash
	case 2:
		t = "/" + r.pick([]string{`[a-`, `(`, `a{2,1}`, `*`, `\\l`, `(?P<n`, `[z-a]`}) + "/"
	case 3:
		t += r.pick([]string{" ", "\n", " x", "  "})
	case 4:
		t = " " + t
	}
	return t
}

var allKinds = []string{"jschema", "rschema", "enum", "jsondoc", "guess"}

// brokenTypeTexts: type texts that load but are rejected when the schema they are
// registered with is compiled or checked, one per way of failing. A project with
// two or three of them (same or different ways) asks the question C09 cares about:
// which one is reported must not depend on map order, addresses or registration order.
func brokenTypeText(r *rng, self string, others []string) string {
	o := "@zz"
	if len(others) > 0 {
		o = r.pick(others)
	}
	switch r.n(14) {
	case 0:
		return `1 // {min: 5}`
	case 1:
		return `"abc" // {maxLength: 2}`
	case 2:
		return `1 // {or: [{type: "@zz", nullable: true}, {type: "integer"}]}`
	case 3:
		return `"s" // {or: [{type: "string", minLength: 1}, {type: "` + self + `", nullable: true}]}`
	case 4:
		return `1 // {or: [{type: "` + o + `", min: 0}, {type: "string"}]}`
	case 5:
		return `{ // {allOf: "@zz"}` + "\n  \"a\": 1\n}"
	case 6:
		return `{ // {allOf: "` + o + `"}` + "\n  \"a\": 1\n}"
	case 7:
		return `{` + "\n  \"a\": @zz\n}"
	case 8:
		return `@zz | ` + o
	case 9:
		return `{` + "\n  \"k\": 12 // {type: \"" + self + "\"}\n}"
	case 10:
		return `[` + "\n  1 // {enum: @noSuchEnum}\n]"
	case 11:
		return `"2021-13-45" // {type: "date"}`
	case 12:
		return `1.234 // {precision: 2}`
	default:
		return `{` + "\n  " + o + ": 1\n}"
	}
}

// genAllOfChain: inheritance chains and diamonds (depth 3-4), valid or with one
// clash, the parents registered as types and the root either one of the chain's ends
// or an object that inherits itself.
func genAllOfChain(r *rng) Project {
	p := Project{Kind: "jschema", Name: []string{"root", "api.jst"}[r.n(2)]}
	n := 3 + r.n(2)
	names := namePool[:n]
	clash := -1
	if r.pct(30) {
		clash = 1 + r.n(n-1)
	}
	diamond := r.pct(40)
	for i, name := range names {
		key := "k" + strconv.Itoa(i)
		if i == clash {
			key = "k0" // the same key as the base type: rejected when merged
		}
		head := ""
		switch {
		case i == 0:
		case diamond && i == n-1 && n >= 4:
			head = ` // {allOf: ["` + names[1] + `", "` + names[2] + `"]}`
		case diamond && i == 2:
			head = ` // {allOf: "` + names[0] + `"}`
		default:
			head = ` // {allOf: "` + names[i-1] + `"}`
		}
		extra := ""
		if r.pct(30) {
			extra = ",\n  \"opt" + strconv.Itoa(i) + "\": \"x\" // {optional: true}"
		}
		if r.pct(15) {
			if head == "" {
				head = ` // {additionalProperties: "string"}`
			} else {
				head = strings.Replace(head, "}", ", additionalProperties: true}", 1)
			}
		}
		val := strconv.Itoa(i)
		if r.pct(25) {
			// a property whose rule makes unnamed types (the alternatives of an "or"):
			// whoever inherits the property has to know them too (defect D12)
			ann := ` // {or: ["integer", "string"]}`
			if extra != "" {
				extra = "," + ann + extra[1:]
			} else {
				extra = ann
			}
		}
		p.Types = append(p.Types, TypeSpec{Name: name, Kind: "j", Text: "{" + head + "\n  \"" + key + "\": " + val + extra + "\n}"})
	}
	last := names[n-1]
	switch r.n(4) {
	case 0:
		p.Text = last
	case 1:
		p.Text = `{ // {allOf: "` + last + `"}` + "\n  \"own\": true\n}"
	case 2:
		p.Text = "{\n  \"a\": " + last + ",\n  \"b\": [" + names[1] + "]\n}"
	default:
		p.Text = `{ // {allOf: ["` + names[n-2] + `", "` + last + `"]}` + "\n  \"own\": 1\n}"
	}
	if r.pct(30) {
		p.Opt = "optkeys" // no key of the schema's own is required: only inherited ones are
	}
	return p
}

// relayout changes how a text is laid out without (usually) changing what it says:
// CRLF line ends, tabs for indentation, comment lines, blank lines.
func relayout(r *rng, t string) string {
	switch r.n(5) {
	case 0:
		return strings.ReplaceAll(t, "\n", "\r\n")
	case 1:
		return strings.ReplaceAll(t, "  ", "\t")
	case 2:
		lines := strings.Split(t, "\n")
		i := r.n(len(lines))
		c := r.pick([]string{"# a comment line", "  # indented comment", "", "   ", "# {min: 1}"})
		lines = append(lines[:i:i], append([]string{c}, lines[i:]...)...)
		return strings.Join(lines, "\n")
	case 3:
		return "\n" + t + "\n\n"
	default:
		return t + " # trailing comment"
	}
}

// genWide: one schema with many (10-300) properties, each with a DIFFERENT numeric
// bound, string limit, regex or enum list. Whatever the library memoises per literal,
// pattern or text has some capacity (8, 64, 1024 entries): a wide schema between the
// loading and the checking of another object sweeps such a memo.
func genWide(r *rng) Project {
	n := []int{10, 40, 70, 70, 130, 300}[r.n(6)]
	if r.small && n > 70 {
		n = 70
	}
	return genWideOf(r, n, -2)
}

// genWideOf: n properties; only = -2: decide here, -1: mixed kinds, 0..5: that kind.
func genWideOf(r *rng, n, only int) Project {
	p := Project{Kind: "jschema", Name: []string{"root", "wide.jst"}[r.n(2)]}
	base := r.n(1000000)
	// a third of the wide schemas are of one kind only (all regexes, all enums, …): a
	// memo of that kind is swept by a schema of moderate size (seeded change c11x, an
	// LRU of 16 compiled regexes with a check-then-act lookup, was met by one run in
	// 47 000 before)
	if only == -2 {
		only = -1
		if r.pct(35) {
			only = r.n(6)
			n = []int{8, 12, 18, 24, 40}[r.n(5)] // around the usual capacities, below and above
		}
	}
	var sb strings.Builder
	sb.WriteString("{\n")
	for i := 0; i < n; i++ {
		k := base + i*7
		var v string
		pick := only
		if pick < 0 {
			pick = r.n(6)
		}
		switch pick {
		case 0:
			v = strconv.Itoa(k+1) + " // {min: " + strconv.Itoa(k) + "}"
		case 1:
			v = strconv.Itoa(k-1) + " // {max: " + strconv.Itoa(k) + ", min: -" + strconv.Itoa(k) + "}"
		case 2:
			v = `"abc" // {maxLength: ` + strconv.Itoa(3+k%5000) + `}`
		case 3:
			v = `"a` + strconv.Itoa(k) + `" // {regex: "^a` + strconv.Itoa(k) + `$"}`
		case 4:
			v = strconv.Itoa(k) + ` // {enum: [` + strconv.Itoa(k) + `, "v` + strconv.Itoa(k) + `"]}`
		default:
			v = strconv.Itoa(k) + ".5 // {precision: 1, min: " + strconv.Itoa(k) + "}"
		}
		val, an := splitAnn(v)
		sb.WriteString("  \"p" + strconv.Itoa(i) + "\": " + val)
		if i != n-1 {
			sb.WriteString(",")
		}
		sb.WriteString(an + "\n")
	}
	sb.WriteString("}")
	p.Text = sb.String()
	return p
}

// genRefDiamond: references that meet again - the root's rule names two types that
// both refer (through `type`/`or` rules, not shortcuts) to a third one; chains of
// such references; a reference back to an earlier type. The checker walks these with
// a per-walk guard, and what it finds depends on how often a type is reached.
func genRefDiamond(r *rng) Project {
	p := Project{Kind: "jschema", Name: []string{"root", "refs.jst"}[r.n(2)]}
	val := r.pick([]string{`1`, `"s"`, `true`, `1.5`})
	leaf := map[string]string{`1`: `2 // {min: 0}`, `"s"`: `"abc" // {minLength: 1}`, `true`: `false`, `1.5`: `2.5 // {precision: 1}`}[val]
	ref := func(names ...string) string {
		if len(names) == 1 && r.pct(60) {
			return val + ` // {type: "` + names[0] + `"}`
		}
		q := make([]string, len(names))
		for i, n := range names {
			q[i] = `"` + n + `"`
		}
		return val + ` // {or: [` + strings.Join(q, ", ") + `]}`
	}
	switch r.n(5) {
	case 4: // a type whose `or` lists built-in alternatives and then refers back to itself
		p.Text = r.pick([]string{val, `"x"`, `@a`})
		p.Types = []TypeSpec{{"@a", "j", val + ` // {or: ["boolean", "string", "@a"]}`}, {"@b", "j", val + ` // {or: [{type: "integer", min: 0}, "@a", "@b"]}`}}
	case 0: // diamond
		p.Text = ref("@a", "@b")
		p.Types = []TypeSpec{{"@a", "j", ref("@c")}, {"@b", "j", ref("@c")}, {"@c", "j", leaf}}
	case 1: // diamond one level deeper on one side
		p.Text = ref("@a", "@b")
		p.Types = []TypeSpec{{"@a", "j", ref("@c")}, {"@b", "j", ref("@d")}, {"@d", "j", ref("@c")}, {"@c", "j", leaf}}
	case 2: // chain, used twice from an object
		p.Text = "{\n  \"x\": " + ref("@a") + ",\n  \"y\": " + ref("@b") + "\n}"
		p.Text = strings.Replace(p.Text, " // ", ", // ", 1)
		p.Types = []TypeSpec{{"@a", "j", ref("@b")}, {"@b", "j", ref("@c")}, {"@c", "j", leaf}}
	default: // a reference back
		p.Text = ref("@a")
		p.Types = []TypeSpec{{"@a", "j", ref("@b", "@c")}, {"@b", "j", ref("@a")}, {"@c", "j", leaf}}
	}
	return p
}

// genExampleFails: a project the checker accepts but whose Example() fails inside a
// user type (an empty container with an `or` rule has no example), reached through
// references - twice, or through a recursive type - so that whatever the example
// builder keeps per type is in the middle of something when the failure unwinds it.
// (Seeded change c09p - a pooled builder whose per-type counters stay incremented
// after a failure - was caught by one VERIF_SEED in three before this template.)
func genExampleFails(r *rng) Project {
	p := Project{Kind: "jschema", Name: []string{"root", "schema.jst"}[r.n(2)]}
	hole := r.pick([]string{`{}`, `[]`}) + ` // {or: [{type: "object"}, {type: "array"}]}`
	switch r.n(4) {
	case 0: // the failing type used twice
		p.Text = "{\n  \"a\": @a,\n  \"b\": @a\n}"
		p.Types = []TypeSpec{{"@a", "j", "{\n  \"id\": 1,\n  \"payload\": " + hole + "\n}"}}
	case 1: // … below a recursive type
		p.Text = "{\n  \"tree\": @a,\n  \"n\": 1\n}"
		p.Types = []TypeSpec{{"@a", "j", "{\n  \"v\": 1,\n  \"kids\": [@a],\n  \"payload\": " + hole + "\n}"}}
	case 2: // … two levels down, next to a sound sibling that uses the same names
		p.Text = "{\n  \"x\": @a,\n  \"y\": @b\n}"
		p.Types = []TypeSpec{{"@a", "j", "{\n  \"b\": @b\n}"}, {"@b", "j", "{\n  \"c\": @c,\n  \"k\": [@c]\n}"}, {"@c", "j", "{\n  \"payload\": " + hole + "\n}"}}
	default: // a sound project over the same type names (what a later call is compared on)
		p.Text = "{\n  \"tree\": @a,\n  \"n\": 1\n}"
		p.Types = []TypeSpec{{"@a", "j", "{\n  \"v\": 1,\n  \"kids\": [@a]\n}"}}
	}
	return p
}

func genMultiBroken(r *rng) Project {
	p := Project{Kind: "jschema", Name: []string{"root", "schema.jst"}[r.n(2)]}
	n := 2 + r.n(3)
	names := namePool[:n]
	var members []string
	for i, name := range names {
		var others []string
		for j, o := range names {
			if j != i {
				others = append(others, o)
			}
		}
		text := `"ok"`
		if i < 2 || r.pct(60) {
			text = brokenTypeText(r, name, others)
		}
		p.Types = append(p.Types, TypeSpec{Name: name, Kind: "j", Text: text})
		members = append(members, "  \"f"+strconv.Itoa(i)+"\": "+name)
	}
	if r.pct(70) {
		p.Text = "{\n" + strings.Join(members, ",\n") + "\n}"
	} else {
		p.Text = `"root value"` // the types are registered but not used
	}
	return p
}

func genProject(r *rng, tornPct int) Project {
	if (r.focus == "" || r.focus == "jschema") && r.pct(5) {
		return genMultiBroken(r)
	}
	if (r.focus == "" || r.focus == "jschema") && r.pct(4) {
		return genAllOfChain(r)
	}
	if (r.focus == "" || r.focus == "jschema") && r.pct(5) {
		return genWide(r)
	}
	if (r.focus == "" || r.focus == "jschema") && r.pct(3) {
		return genRefDiamond(r)
	}
	if (r.focus == "" || r.focus == "jschema") && r.pct(2) {
		return genExampleFails(r)
	}
	if len(corpusProjects) > 0 && (r.focus == "" || r.focus == "jschema") && r.pct(14) {
		p := corpusProjects[r.n(len(corpusProjects))]
		p.Types = append([]TypeSpec(nil), p.Types...)
		p.Rules = append([]RuleSpec(nil), p.Rules...)
		p.Name = []string{"root", "schema.jst", "x"}[r.n(3)]
		switch {
		case len(p.Types) > 0 && r.pct(10):
			i := r.n(len(p.Types)) // one of its types is not registered
			p.Types = append(p.Types[:i:i], p.Types[i+1:]...)
		case len(p.Types) > 1 && r.pct(10):
			i, j := r.n(len(p.Types)), r.n(len(p.Types)) // two types swap their texts
			p.Types[i].Text, p.Types[j].Text = p.Types[j].Text, p.Types[i].Text
			p.Types[i].Kind, p.Types[j].Kind = p.Types[j].Kind, p.Types[i].Kind
		case r.pct(10):
			p.Text = mutateText(r, p.Text)
		case r.pct(8):
			p.Text = relayout(r, p.Text)
		}
		if tornPct > 0 && r.pct(tornPct) {
			p.Text, p.Torn = tear(r, p.Text)
		}
		return p
	}
	var p Project
	switch c := r.n(100); {
	case c < 66:
		p.Kind = "jschema"
	case c < 74:
		p.Kind = "rschema"
	case c < 84:
		p.Kind = "enum"
	case c < 92:
		p.Kind = "jsondoc"
	default:
		p.Kind = "guess"
	}
	if r.focus != "" && r.pct(70) {
		p.Kind = r.focus
	}
	p.Name = []string{"root", "schema.jst", "x"}[r.n(3)]
	switch p.Kind {
	case "rschema":
		p.Text = r.pick(corpus.Regex)
		if r.pct(50) {
			p.Text = genRegexText(r)
		}
	case "enum":
		p.Text = r.pick(corpus.Enum)
		if r.pct(60) {
			p.Text = genEnumText(r)
		}
	case "jsondoc":
		p.Text = r.pick(corpus.JSON)
		if r.pct(50) {
			p.Text = genJSONText(r)
		}
		if r.pct(15) {
			p.Name = "trail"
		}
	case "guess":
		p.Text = r.pick(corpus.Guess)
		if r.pct(30) {
			p.Text = r.pick(jsonScalars)
		}
	case "jschema":
		names := namePool[:1+r.n(len(namePool)-1)]
		enums := []string{}
		if r.pct(50) {
			enums = []string{"@en"}
			if r.pct(30) {
				enums = append(enums, "@en2")
			}
		}
		switch c := r.n(100); {
		case c < 25:
			p.Text = r.pick(corpus.JValid)
		case c < 45:
			p.Text = r.pick(corpus.JRefs)
		case c < 52:
			p.Text = r.pick(corpus.JInvalid)
		default:
			p.Text = genSchemaText(r, names, enums)
			if r.pct(10) {
				p.Text = relayout(r, p.Text)
			}
		}
		// bind every referenced name
		seen := map[string]bool{}
		var refs []string
		for _, m := range refRe.FindAllString(p.Text, -1) {
			if !seen[m] {
				seen[m] = true
				refs = append(refs, m)
			}
		}
		if len(refs) > 6 {
			refs = refs[:6]
		}
		isEnumRef := func(name string) bool {
			return strings.Contains(p.Text, "enum: "+name) || strings.Contains(p.Text, "enum:"+name)
		}
		for _, name := range refs {
			if isEnumRef(name) {
				if !r.pct(15) {
					p.Rules = append(p.Rules, RuleSpec{Name: name, Text: pickEnum(r)})
				}
				continue
			}
			if r.pct(8) {
				continue // a missing type
			}
			k, t := genTypeText(r, names, enums)
			if keyRe.MatchString("\n"+p.Text) && strings.Contains(p.Text, name+":") && r.pct(75) {
				// used as a key shortcut: such a type has to be a string to be accepted
				k, t = "j", r.pick([]string{`"abc"`, `"key" // {minLength: 1}`, `"k-1" // {regex: "^[a-z0-9-]+$"}`, `"a@b.cc" // {type: "email"}`, `"id" // {enum: ["id", "name"]}`})
			}
			p.Types = append(p.Types, TypeSpec{Name: name, Kind: k, Text: t})
		}
		// types referenced only from other types, and unused extras (valid or broken)
		for _, name := range names {
			if !seen[name] && r.pct(45) {
				k, t := genTypeText(r, names, enums)
				p.Types = append(p.Types, TypeSpec{Name: name, Kind: k, Text: t})
				seen[name] = true
			}
		}
		if r.pct(12) {
			p.Rules = append(p.Rules, RuleSpec{Name: "@unused", Text: pickEnum(r)})
		}
		if len(enums) > 0 && r.pct(35) {
			// further registered rules with names close to the referenced ones (a
			// reference may be missing: which registered rule is "the nearest"?)
			for _, name := range []string{"@en3", "@en1", "@e", "@enn"}[:1+r.n(4)] {
				if !isEnumRef(name) {
					p.Rules = append(p.Rules, RuleSpec{Name: name, Text: pickEnum(r)})
				}
			}
		}
	}
	switch {
	case p.Kind == "jschema" && r.pct(12):
		p.Opt = "optkeys"
	case p.Kind == "rschema" && r.pct(25):
		p.Opt = "seed=" + strconv.Itoa(r.n(5))
	}
	if tornPct > 0 && r.pct(tornPct) {
		if len(p.Types) > 0 && r.pct(40) {
			i := r.n(len(p.Types))
			p.Types[i].Text, p.Torn = tear(r, p.Types[i].Text)
			p.Torn = "type " + p.Types[i].Name + " " + p.Torn
		} else {
			p.Text, p.Torn = tear(r, p.Text)
		}
	}
	return p
}

// A regex-typed user type is turned into a JSight type from the regex object's
// *next* example at every registration (stateful by design), so registering one
// regex object with two schemas gives the second another example: not shared.
func hasRegexType(p *Project) bool {
	for _, t := range p.Types {
		if t.Kind == "r" {
			return true
		}
	}
	return false
}

// padTo16 appends trailing spaces so that texts kept in a reusable buffer often
// have equal lengths (what an identity-keyed cache would confuse).
func padTo16(t string) string {
	for len(t)%16 != 0 {
		t += " "
	}
	return t
}

func pickEnum(r *rng) string {
	if r.pct(50) {
		return genEnumText(r)
	}
	return r.pick(corpus.Enum)
}

func hasDuplicateNames(p *Project) bool {
	seen := map[string]bool{}
	for _, t := range p.Types {
		if seen[t.Name] {
			return true
		}
		seen[t.Name] = true
	}
	seen = map[string]bool{}
	for _, t := range p.Rules {
		if seen[t.Name] {
			return true
		}
		seen[t.Name] = true
	}
	return false
}

// ---- worlds ------------------------------------------------------------------

// sharedOnly: the calls C11 lists for one schema object used by several tasks.
// Calls on the type and rule objects registered with it are other objects' calls
// and are issued only by the task that owns the whole object graph.
func sharedKinds(kinds []string) []string {
	var out []string
	for _, k := range kinds {
		if k != "rules" && k != "types" && k != "inner" {
			out = append(out, k)
		}
	}
	return out
}

// panicOK: F-panic stands for an internal failure inside the public API's recover
// scope. The calls that walk the exported internal tree directly (no recover scope
// around them, and nothing in them that can fail for any input) get no such fault.
func panicOK(kind string) bool {
	return kind != "ensureap" && kind != "inner" && kind != "vany"
}

func readOps(r *rng, obj int, kind string, min, max int) []Op {
	return readOpsOf(r, obj, kind, scriptKinds(kind), min, max)
}

// objOps: the read-only calls of a history on one of its own objects; a project
// that registered rule or type objects asks those objects more often.
func objOps(r *rng, obj int, p *Project, min, max int) []Op {
	ops := readOps(r, obj, p.Kind, min, max)
	ins := func(kind string) {
		at := r.n(len(ops) + 1)
		ops = append(ops[:at:at], append([]Op{{Obj: obj, Kind: kind}}, ops[at:]...)...)
	}
	if len(p.Rules) > 0 && r.pct(50) {
		ins("rules")
	}
	if len(p.Types) > 0 && r.pct(35) {
		ins("types")
	}
	return ops
}

func readOpsOf(r *rng, obj int, kind string, kinds []string, min, max int) []Op {
	// de-duplicate the regex example repetitions: the generator decides multiplicity
	uniq := kinds[:0:0]
	seen := map[string]bool{}
	for _, k := range kinds {
		if !seen[k] {
			seen[k] = true
			uniq = append(uniq, k)
		}
	}
	// The calls the properties name carry most of the weight; the calls on the
	// registered objects and on the internal tree are drawn less often, so that adding
	// them did not thin out the others (seeded changes c10g and c11g were found or
	// not depending on that). The same weights hold in every tier.
	var weighted []string
	for _, k := range uniq {
		w := 3
		switch k {
		case "rules", "types", "inner", "ensureap", "vany":
			w = 1
		}
		for ; w > 0; w-- {
			weighted = append(weighted, k)
		}
	}
	n := min + r.n(max-min+1)
	if kind == "jschema" && r.pct(50) {
		n += r.n(4)
	}
	var ops []Op
	ex := 0
	for i := 0; i < n; i++ {
		k := weighted[r.n(len(weighted))]
		if kind == "rschema" && k == "example" {
			if ex >= maxRegexExamples {
				continue
			}
			ex++
		}
		ops = append(ops, Op{Obj: obj, Kind: k})
	}
	return ops
}

func fullScript(obj int, kind string) []Op {
	var ops []Op
	for _, k := range scriptKinds(kind) {
		ops = append(ops, Op{Obj: obj, Kind: k})
	}
	return ops
}

func swarmCfg(r *rng, prop string) RunCfg {
	c := RunCfg{Policy: r.n(simrt.NPolicies)}
	c.SwitchPct = []int{100, 300, 1000, 2500, 5000}[r.n(5)]
	c.PCTDepth = 1 + r.n(4)
	// where the priority change points of the PCT policy fall: runs are between a few
	// hundred and a few hundred thousand steps long, so the span is drawn per run
	c.PCTSpan = []int{150, 400, 1000, 3000, 10000, 40000, 150000}[r.n(7)]
	if prop == "C10" || prop == "C11" {
		if r.pct(50) {
			c.PoolFreshPct = []int{5, 20, 50}[r.n(3)]
		}
		if r.pct(50) {
			c.PoolAnyPct = []int{10, 40, 80}[r.n(3)]
		}
		if r.pct(30) {
			c.PoolDropPct = []int{5, 25}[r.n(2)]
		}
	}
	if prop == "C11" && r.pct(35) {
		c.FPYieldPct = []int{2, 10, 30}[r.n(3)]
	}
	if prop == "C09" && r.pct(50) {
		// "on every repetition": the clock is one more thing that differs between two
		// repetitions (the library reads none today; a change may)
		c.ClockVaryPct = []int{5, 30, 80}[r.n(3)]
	}
	// Usually a run starts with empty pools (a garbage collection between two
	// histories); sometimes the pools keep what the process's earlier runs left in
	// them. A violation that needs that is found again through the worker's run range.
	c.KeepPools = r.pct(30)
	if prop == "C09" {
		c.CPUVary = r.pct(50)
		c.RandVary = r.pct(70)
	}
	return c
}

// noiseBase seeds the per-worker palette of C09 noise objects.
var noiseBase uint64

// genWorldC09: one project, two simultaneously live instances, each under its
// own variation of map order / address numbering / registration order.
func genWorldC09(seed uint64, proj *Project) *World {
	r := &rng{s: seed}
	w := &World{Prop: "C09", Seed: seed, Cfg: swarmCfg(r, "C09")}
	w.Objects = []Project{*proj, *proj}
	useBuf := proj.Kind != "guess" && r.pct(30)
	if useBuf {
		// the caller reads every text into one reusable buffer; each object is
		// finished before the next text is read in
		for i := range w.Objects {
			w.Objects[i].Buf = 3
			w.Objects[i].Text = padTo16(w.Objects[i].Text)
		}
	}
	var ops []Op
	// "On every repetition": in half of the runs unrelated work (other inputs, some
	// of them torn) happens before the first and between the two instances. These
	// noise objects are not judged (they have no reference); the two instances are.
	noise := func() {
		if !r.pct(35) {
			return
		}
		for k := 1 + r.n(2); k > 0; k-- {
			// drawn from a small per-worker palette, so that the reference
			// processes that pre-screen them are computed once
			nr := &rng{s: hashSeed(noiseBase, 4242, uint64(r.n(64)))}
			if r.pct(50) {
				// … mostly of the judged project's own kind: what survives between two
				// inputs of one kind (a pooled scanner, a memo) meets the next input of that kind
				nr = &rng{s: hashSeed(noiseBase, 4243, fnv(0, proj.Kind), uint64(r.n(24))), focus: proj.Kind}
			}
			p := genProject(nr, 35)
			if useBuf && p.Kind != "guess" {
				p.Buf = 3
				p.Text = padTo16(p.Text)
			}
			o := len(w.Objects)
			w.Objects = append(w.Objects, p)
			ops = append(ops, Op{Obj: o, Kind: "build"})
			ops = append(ops, objOps(r, o, &p, 1, 3)...)
		}
	}
	noise()
	for o := 0; o < 2; o++ {
		if o == 1 {
			noise()
		}
		b := Op{Obj: o, Kind: "build"}
		canonical := o == 0 && r.pct(40)
		mp, ap := false, 0
		if !canonical {
			mp = r.pct(80)
			ap = r.n(3)
			if !hasDuplicateNames(proj) && r.pct(70) {
				b.RPerm = r.perm(len(proj.Rules))
				b.TPerm = r.perm(len(proj.Types))
			}
		}
		b.MapPerm, b.AddrPolicy = mp, ap
		ops = append(ops, b)
		script := fullScript(o, proj.Kind)
		if o == 1 && proj.Kind != "rschema" && r.pct(50) {
			// the same questions in another order (a read-only call must not care
			// what was asked before it; the regex Example() is stateful by design)
			for i, j := range r.perm(len(script)) {
				script[i], script[j] = script[j], script[i]
			}
		}
		for _, op := range script {
			op.MapPerm, op.AddrPolicy = mp, ap
			ops = append(ops, op)
		}
	}
	w.Tasks = [][]Op{ops}
	return w
}

// genWorldC10: one task, a history over several independent objects.
func genWorldC10(seed uint64, faults bool) *World {
	r := &rng{s: seed}
	w := &World{Prop: "C10", Seed: seed, Cfg: swarmCfg(r, "C10")}
	if r.pct(40) {
		r.focus = r.pick(allKinds) // swarm: a history mostly about one kind of input
	}
	if !faults {
		w.Cfg.PoolFreshPct, w.Cfg.PoolAnyPct, w.Cfg.PoolDropPct = 0, 0, 0
	}
	nobj := 2 + r.n(5)
	maxOps := 40
	if bigWorlds && r.pct(30) {
		nobj = 6 + r.n(7)
		maxOps = 110
	}
	shareTypes := r.pct(35)
	inheritFamily := r.pct(12)
	useBuf := r.pct(30) // the caller keeps some texts in reusable []byte buffers
	torn := 0
	if faults {
		torn = []int{0, 20, 50}[r.n(3)]
	}
	var queues [][]Op
	for o := 0; o < nobj; o++ {
		var p Project
		if o > 0 && r.pct(15) {
			p = w.Objects[r.n(o)] // the same input again, later in the history
			p.ShareWith = 0
		} else {
			p = genProject(r, torn)
		}
		if shareTypes && inheritFamily && o <= 1 {
			// an "API project" whose schemas inherit from shared base types: the first
			// schema inherits several of them at once, the second inherits one
			if o == 0 {
				p = Project{Kind: "jschema", Name: "first.jst"}
				n := 2 + r.n(3)
				for i := 0; i < n; i++ {
					text := "{\n  \"k" + strconv.Itoa(i) + "\": " + strconv.Itoa(i) + ",\n  \"o" + strconv.Itoa(i) + "\": \"s\" // {optional: true}\n}"
					if i > 0 && r.pct(20) {
						text = `{ // {allOf: "` + namePool[i-1] + `"}` + "\n  \"k" + strconv.Itoa(i) + "\": true\n}"
					}
					p.Types = append(p.Types, TypeSpec{Name: namePool[i], Kind: "j", Text: text})
				}
				perm := r.perm(n)
				p.Text = `{ // {allOf: ["` + p.Types[perm[0]].Name + `", "` + p.Types[perm[1]].Name + `"]}` + "\n  \"own\": 1\n}"
				if r.pct(50) {
					p.Opt = "optkeys"
				} else {
					p.Opt = ""
				}
			} else {
				dp := w.Objects[0]
				p = Project{Kind: "jschema", Name: "second.jst", Types: dp.Types, Rules: dp.Rules, ShareWith: 1}
				p.Text = `{ // {allOf: "` + dp.Types[r.n(len(dp.Types))].Name + `"}` + "\n  \"x\": 1\n}"
				if r.pct(25) {
					p.Opt = "optkeys"
				}
			}
		}
		if useBuf && p.Kind != "guess" && p.ShareWith == 0 && r.pct(50) {
			p.Buf = 1 + r.n(2)
			p.Text = padTo16(p.Text)
		}
		if o > 0 && shareTypes && r.pct(30) {
			// another schema of the same "API project": it registers the very type and
			// rule objects an earlier schema registered (all of them, in the same order)
			d := r.n(o)
			if dp := w.Objects[d]; dp.Kind == "jschema" && dp.ShareWith == 0 && len(dp.Types)+len(dp.Rules) > 0 && !hasRegexType(&dp) {
				var names, enums []string
				for _, t := range dp.Types {
					names = append(names, t.Name)
				}
				for _, t := range dp.Rules {
					enums = append(enums, t.Name)
				}
				p = Project{Kind: "jschema", Name: []string{"root", "other.jst", "x"}[r.n(3)], Types: dp.Types, Rules: dp.Rules, ShareWith: d + 1}
				if len(p.Types) > 1 && r.pct(25) {
					p.Types = p.Types[:1+r.n(len(p.Types)-1)] // this schema registers only the first few of them
				}
				if len(names) == 0 {
					names = []string{"@a"}
				}
				switch {
				case r.pct(30):
					p.Text = dp.Text
				case len(dp.Types) > 0 && r.pct(30):
					// … a small schema that inherits one of the shared types
					p.Text = `{ // {allOf: "` + dp.Types[r.n(len(dp.Types))].Name + `"}` + "\n  \"x" + strconv.Itoa(o) + "\": 1\n}"
				default:
					p.Text = genSchemaText(r, names, enums)
				}
			}
		}
		w.Objects = append(w.Objects, p)
		q := []Op{{Obj: o, Kind: "build"}}
		q = append(q, objOps(r, o, &p, 1, 6)...)
		if faults && r.pct(12) && (p.Kind == "jschema" || p.Kind == "jsondoc") {
			// F-panic inside one operation of this object; it is the object's last
			k := r.n(len(q))
			if panicOK(q[k].Kind) {
				// early, middle or late in the operation
				q[k].PanicAt = 1 + r.n([]int{60, 60, 400, 400, 3000}[r.n(5)])
				q = q[:k+1]
			}
		}
		queues = append(queues, q)
	}
	// interleave the per-object queues, keeping each object's own order
	var ops []Op
	for {
		var live []int
		for i, q := range queues {
			if len(q) > 0 {
				live = append(live, i)
			}
		}
		if len(live) == 0 || len(ops) >= maxOps {
			break
		}
		i := live[r.n(len(live))]
		if b := w.Objects[i].Buf; b > 0 && queues[i][0].Kind == "build" {
			// taking a buffer over ends its previous owner's life: let that one finish first
			for j := range queues {
				if j != i && w.Objects[j].Buf == b && len(queues[j]) > 0 && queues[j][0].Kind != "build" {
					ops = append(ops, queues[j]...)
					queues[j] = nil
				}
			}
		}
		ops = append(ops, queues[i][0])
		queues[i] = queues[i][1:]
		if faults && r.pct(4) {
			ops = append(ops, Op{Kind: "gc"})
		}
	}
	w.Tasks = [][]Op{ops}
	return w
}

// genWorldC11: 2-4 tasks. Clause 1: each task works on its own objects.
// Clause 2: one object is built first and then used by all tasks.
func genWorldC11(seed uint64, tornOthers bool) *World {
	r := &rng{s: seed}
	w := &World{Prop: "C11", Seed: seed, Cfg: swarmCfg(r, "C11")}
	r.small = true
	if r.pct(40) {
		r.focus = r.pick(allKinds) // swarm: tasks mostly working on one kind of input
	}
	ntasks := 2 + r.n(3)
	if bigWorlds && r.pct(25) {
		ntasks = 4 + r.n(4)
	}
	w.Tasks = make([][]Op, ntasks)
	shared := -1
	if r.pct(45) {
		// clause 2
		var p Project
		for tries := 0; ; tries++ {
			p = genProject(r, 0)
			if p.Kind == "jschema" || p.Kind == "rschema" || p.Kind == "enum" || tries > 20 {
				break
			}
		}
		if p.Kind == "jsondoc" || p.Kind == "guess" {
			p = Project{Kind: "jschema", Name: "root", Text: `{"a": 1}`}
		}
		if p.Kind == "jschema" && r.pct(40) {
			// nothing is registered with it, so it is not loaded when the tasks
			// start (AddType loads): loading, too, happens under contention
			p.Types, p.Rules = nil, nil
		}
		w.Objects = append(w.Objects, p)
		shared = 0
	}
	w.Shared = make([]bool, 0)
	if shared >= 0 {
		w.Shared = append(w.Shared, true)
	}
	for t := 0; t < ntasks; t++ {
		var ops []Op
		if shared >= 0 {
			ops = append(ops, readOpsOf(r, shared, w.Objects[shared].Kind, sharedKinds(scriptKinds(w.Objects[shared].Kind)), 1, 5)...)
		}
		nown := r.n(3)
		if shared < 0 {
			nown = 1 + r.n(2)
		}
		for k := 0; k < nown; k++ {
			torn := 0
			if tornOthers && t > 0 && r.pct(50) {
				torn = 100
			}
			var p Project
			if len(w.Objects) > 0 && r.pct(25) {
				p = w.Objects[r.n(len(w.Objects))] // the same text in several tasks (own object each)
				p.ShareWith, p.RulesOnly = 0, false
			} else {
				p = genProject(r, torn)
			}
			if len(w.Objects) > 0 && r.pct(25) {
				// a schema of its own that registers enum rule OBJECTS another task's
				// schema registers too (rule objects are made once and used by many
				// schemas; the type objects stay this task's own)
				d := r.n(len(w.Objects))
				if dp := w.Objects[d]; dp.Kind == "jschema" && len(dp.Rules) > 0 && dp.ShareWith == 0 && !(shared >= 0 && d == shared) {
					p = dp
					p.ShareWith, p.RulesOnly = d+1, true
					if r.pct(40) {
						var enums []string
						for _, ru := range dp.Rules {
							enums = append(enums, ru.Name)
						}
						p.Text = genSchemaText(r, []string{"@a"}, enums)
						p.Types = nil
					}
				}
			}
			o := len(w.Objects)
			w.Objects = append(w.Objects, p)
			w.Shared = append(w.Shared, false)
			own := []Op{{Obj: o, Kind: "build"}}
			own = append(own, objOps(r, o, &p, 1, 5)...)
			// splice own-object ops among the shared-object ops
			if len(ops) > 0 && r.pct(50) {
				cut := r.n(len(ops) + 1)
				merged := append([]Op{}, ops[:cut]...)
				merged = append(merged, own...)
				merged = append(merged, ops[cut:]...)
				ops = merged
			} else {
				ops = append(ops, own...)
			}
		}
		if r.pct(15) && len(ops) > 1 {
			// a garbage collection empties the pools while other tasks hold pooled objects
			cut := 1 + r.n(len(ops)-1)
			merged := append([]Op{}, ops[:cut]...)
			merged = append(merged, Op{Kind: "gc"})
			ops = append(merged, ops[cut:]...)
		}
		w.Tasks[t] = ops
	}
	if r.pct(25) {
		// Symmetric tasks: every task does what task 0 does - the same calls in the same
		// order, on the shared object and on its OWN copies of task 0's objects. Tasks of
		// equal length reach the same phase of the same code at about the same time,
		// which is when narrow windows (a first call still filling a table the second
		// one reads) are met; tasks of unequal length rarely overlap there.
		base := w.Tasks[0]
		own := map[int]bool{}
		for _, op := range base {
			if op.Kind != "gc" && !(shared >= 0 && op.Obj == shared) {
				own[op.Obj] = true
			}
		}
		for t := 1; t < ntasks; t++ {
			remap := map[int]int{}
			nobj := len(w.Objects)
			for o := 0; o < nobj; o++ { // in index order: the world is a function of the seed
				if !own[o] {
					continue
				}
				remap[o] = len(w.Objects)
				w.Objects = append(w.Objects, w.Objects[o])
				w.Shared = append(w.Shared, false)
			}
			ops := make([]Op, 0, len(base))
			for _, op := range base {
				if n, ok := remap[op.Obj]; ok && op.Kind != "gc" {
					op.Obj = n
				}
				ops = append(ops, op)
			}
			if r.pct(30) && len(ops) > 1 {
				// … or the same calls one position apart
				ops = append(ops[1:len(ops):len(ops)], ops[0])
				if ops[len(ops)-1].Kind == "build" {
					ops = append([]Op{ops[len(ops)-1]}, ops[:len(ops)-1]...)
				}
			}
			w.Tasks[t] = ops
		}
	}
	if r.pct(4) {
		// Memo under pressure: one task goes through the SAME small set of literals /
		// patterns / enum lists again and again (several objects of one text - whatever
		// the library memoises for them is hit), while another loads a schema with many
		// different ones of the same kind (whatever capacity the memo has is exceeded and
		// entries are evicted). A lookup that checks and acts in two steps meets the
		// eviction in between. (Seeded change c11x; nothing else in a world brought a hit
		// and an eviction of the same memo together more than once in 47 000 runs.)
		kind := r.n(6)
		small := genWideOf(r, 3+r.n(14), kind)
		big := genWideOf(r, 18+r.n(23), kind)
		w.Objects, w.Shared, shared = nil, nil, -1
		ntasks = 2 + r.n(2)
		w.Tasks = make([][]Op, ntasks)
		for t := 0; t < ntasks; t++ {
			proj, copies := small, 2+r.n(3)
			if t == 1 {
				proj, copies = big, 1+r.n(2)
			}
			var ops []Op
			for k := 0; k < copies; k++ {
				o := len(w.Objects)
				w.Objects = append(w.Objects, proj)
				w.Shared = append(w.Shared, false)
				ops = append(ops, Op{Obj: o, Kind: "build"})
				ops = append(ops, objOps(r, o, &proj, 1, 3)...)
			}
			w.Tasks[t] = ops
		}
	}
	// limit Example() on a shared regex schema to the number of reference samples
	if shared >= 0 && w.Objects[shared].Kind == "rschema" {
		n := 0
		for t := range w.Tasks {
			kept := w.Tasks[t][:0]
			for _, op := range w.Tasks[t] {
				if op.Obj == shared && op.Kind == "example" {
					if n >= maxRegexExamples {
						continue
					}
					n++
				}
				kept = append(kept, op)
			}
			w.Tasks[t] = kept
		}
	}
	return w
}
