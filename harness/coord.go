package main

import (
	"bufio"
	"bytes"
	"encoding/json"
	"flag"
	"fmt"
	"os"
	"os/exec"
	"path/filepath"
	"runtime"
	"sort"
	"strconv"
	"strings"
	"sync"
	"time"

	"github.com/jsightapi/jsight-schema-core/simrt"
)

// Exit codes of workers (Go's own fatal errors exit with 2, so the harness
// avoids that value).
const (
	exitHarnessBug = 42
	exitFatalRun   = 43
)

type coord struct {
	prop, tier string
	seed       uint64
	scratch    string
	plainBin   string
	raceBin    string
	corpus     string
	verif      string
	goldDir    string
	nworkers   int
	t0         time.Time

	mu    sync.Mutex
	cands []*Candidate
	sums  []*Summary
	infra []string // infrastructure trouble: exit 2, never a violation

	histCrashes []*ReplayFile // process deaths that need the worker's earlier runs
}

type phase struct {
	name     string
	race     bool
	runs     int // per worker
	deadline time.Duration
	extra    []string
}

func coordMain(args []string) {
	fs := flag.NewFlagSet("coord", flag.ExitOnError)
	c := &coord{t0: time.Now()}
	fs.StringVar(&c.prop, "prop", "", "")
	fs.StringVar(&c.tier, "tier", "quick", "")
	fs.Uint64Var(&c.seed, "seed", 1, "")
	fs.StringVar(&c.scratch, "scratch", "", "")
	fs.StringVar(&c.plainBin, "plain", "", "")
	fs.StringVar(&c.raceBin, "race", "", "")
	fs.StringVar(&c.corpus, "corpus", "", "")
	fs.StringVar(&c.verif, "verif", "/verif", "")
	fs.IntVar(&c.nworkers, "workers", 0, "")
	scale := fs.Float64("scale", 1, "multiply run counts (self-tests use a small scale)")
	det := fs.Bool("det", false, "emit per-run digests (determinism self-test)")
	t0 := fs.Int64("t0", 0, "unix time the check started (build included)")
	_ = fs.Parse(args)
	if *t0 > 0 {
		c.t0 = time.Unix(*t0, 0)
	}
	if c.nworkers <= 0 {
		c.nworkers = runtime.NumCPU()
		if c.nworkers > 16 {
			c.nworkers = 16
		}
	}
	c.goldDir = filepath.Join(c.scratch, "golden")
	_ = os.MkdirAll(filepath.Join(c.scratch, "race"), 0o755)

	var phases []phase
	q := c.tier != "thorough"
	switch c.prop {
	case "C09":
		if q {
			phases = []phase{{name: "variations", runs: 4000, deadline: 60 * time.Second}}
		} else {
			phases = []phase{{name: "variations", runs: 2400000, deadline: 25 * time.Minute}}
		}
	case "C10":
		if q {
			phases = []phase{{name: "histories", runs: 700, deadline: 60 * time.Second}}
		} else {
			phases = []phase{{name: "histories", runs: 2000000, deadline: 25 * time.Minute}}
		}
	case "C11":
		if q {
			phases = []phase{{name: "plain", runs: 700, deadline: 45 * time.Second}, {name: "race", race: true, runs: 1500, deadline: 45 * time.Second}}
		} else {
			phases = []phase{{name: "plain", runs: 2000000, deadline: 12 * time.Minute}, {name: "race", race: true, runs: 2000000, deadline: 15 * time.Minute}}
		}
	case "C19":
		if q {
			phases = []phase{{name: "histories", runs: 60000, deadline: 60 * time.Second, extra: []string{"-exhaustive", "4"}}}
		} else {
			phases = []phase{{name: "histories", runs: 20000000, deadline: 15 * time.Minute, extra: []string{"-exhaustive", "5"}}}
		}
	default:
		fatalExit("coord: unknown property " + c.prop)
	}
	for i := range phases {
		phases[i].runs = int(float64(phases[i].runs) * *scale)
		if phases[i].runs < 1 {
			phases[i].runs = 1
		}
		if *det {
			phases[i].extra = append(phases[i].extra, "-det")
		}
	}
	fmt.Printf("jsim: property=%s tier=%s VERIF_SEED=%d workers=%d\n", c.prop, c.tier, c.seed, c.nworkers)
	// replay files of earlier runs of this property are stale once the check runs again
	if old, _ := filepath.Glob(filepath.Join(c.verif, "replays", c.prop+"-*.json")); len(old) > 0 {
		for _, f := range old {
			_ = os.Remove(f)
		}
	}
	for _, ph := range phases {
		tp := time.Now()
		c.runPhase(ph)
		fmt.Printf("jsim: phase %s: %d runs in %.1fs (%d candidate violations so far)\n", ph.name, c.totalRuns(), time.Since(tp).Seconds(), len(c.cands))
	}
	if len(c.infra) > 0 {
		c.writeEvidence(0, nil)
		for _, m := range c.infra {
			fmt.Println("jsim: INCONCLUSIVE:", m)
		}
		os.Exit(2)
	}
	if *det {
		var lines []string
		for _, s := range c.sums {
			for _, d := range s.DetCheck {
				lines = append(lines, fmt.Sprintf("%v:%d:%s", s.Race, s.Wid, d))
			}
		}
		sort.Strings(lines)
		detOut := os.Getenv("JSIM_DET_OUT")
		if detOut == "" {
			detOut = filepath.Join(c.scratch, "det.txt")
		}
		_ = os.WriteFile(detOut, []byte(strings.Join(lines, "\n")+"\n"), 0o644)
	}
	os.Exit(c.conclude())
}

func (c *coord) workerCmd(ph phase, wid, from, to int, deadline time.Time) *exec.Cmd {
	bin := c.plainBin
	if ph.race {
		bin = c.raceBin
	}
	var args []string
	if c.prop == "C19" {
		args = []string{"c19worker", "-seed", strconv.FormatUint(c.seed, 10), "-wid", strconv.Itoa(wid), "-nworkers", strconv.Itoa(c.nworkers),
			"-from", strconv.Itoa(from), "-to", strconv.Itoa(to), "-deadline", strconv.FormatInt(deadline.Unix(), 10)}
		for _, e := range ph.extra {
			if e != "-det" {
				args = append(args, e)
			}
		}
		if from > 0 {
			// a restarted worker does not repeat the exhaustive part
			for i := range args {
				if args[i] == "-exhaustive" {
					args[i+1] = "0"
				}
			}
		}
	} else {
		args = []string{"worker", "-prop", c.prop, "-seed", strconv.FormatUint(c.seed, 10), "-wid", strconv.Itoa(wid),
			"-from", strconv.Itoa(from), "-to", strconv.Itoa(to), "-tier", c.tier, "-deadline", strconv.FormatInt(deadline.Unix(), 10),
			"-corpus", c.corpus, "-golden-dir", c.goldDir, "-golden-bin", c.plainBin}
		args = append(args, ph.extra...)
	}
	cmd := exec.Command(bin, args...)
	gmp := os.Getenv("JSIM_WORKER_GOMAXPROCS")
	if gmp == "" {
		gmp = "2"
	}
	cmd.Env = append(os.Environ(), "GOMAXPROCS="+gmp)
	if ph.race {
		cmd.Env = append(cmd.Env, "GORACE=log_path="+filepath.Join(c.scratch, "race", "w"+strconv.Itoa(wid))+" halt_on_error=0 exitcode=0")
	}
	return cmd
}

func (c *coord) runPhase(ph phase) {
	deadline := time.Now().Add(ph.deadline)
	var wg sync.WaitGroup
	for wid := 0; wid < c.nworkers; wid++ {
		wg.Add(1)
		go func(wid int) {
			defer wg.Done()
			from := 0
			for restarts := 0; from < ph.runs && restarts < 50; restarts++ {
				// A worker process handles one chunk of its run sequence and is then
				// replaced by a fresh one: "what the process handled before" ranges from
				// nothing to a thousand runs, again and again, instead of growing once
				// (process-wide counters, caches with a few entries, warm-up effects).
				to := c.chunkEnd(from, ph.runs)
				phc := ph
				phc.runs = to
				cmd := c.workerCmd(ph, wid, from, to, deadline)
				var stderr bytes.Buffer
				cmd.Stderr = &stderr
				stdout, _ := cmd.StdoutPipe()
				if err := cmd.Start(); err != nil {
					c.addInfra("cannot start worker: " + err.Error())
					return
				}
				killed := false
				timer := time.AfterFunc(time.Until(deadline)+90*time.Second, func() { killed = true; _ = cmd.Process.Kill() })
				next := -1
				sc := bufio.NewScanner(stdout)
				sc.Buffer(make([]byte, 1<<20), 1<<28)
				for sc.Scan() {
					line := sc.Text()
					switch {
					case strings.HasPrefix(line, "CAND "):
						var cd Candidate
						if json.Unmarshal([]byte(line[5:]), &cd) == nil {
							cd.Race = ph.race
							c.mu.Lock()
							c.cands = append(c.cands, &cd)
							c.mu.Unlock()
						}
					case strings.HasPrefix(line, "SUM "):
						var s Summary
						if json.Unmarshal([]byte(line[4:]), &s) == nil {
							s.Race = ph.race
							next = s.NextIdx
							c.mu.Lock()
							c.sums = append(c.sums, &s)
							c.mu.Unlock()
						}
					}
				}
				err := cmd.Wait()
				timer.Stop()
				code := 0
				if ee, ok := err.(*exec.ExitError); ok {
					code = ee.ExitCode()
				} else if err != nil {
					code = -1
				}
				switch {
				case killed:
					c.addInfra(fmt.Sprintf("watchdog: worker %d of phase %s did not finish in time (a run hangs without reaching a yield point, or the machine is overloaded)", wid, ph.name))
					return
				case code == 0:
					if next >= to && to < ph.runs && time.Now().Before(deadline) {
						from = to
						restarts--
						continue
					}
					return
				case code == exitFatalRun && next > from:
					from = next // the run in flight ended in a deadlock / step-cap verdict; carry on after it
				case code == exitHarnessBug:
					c.addInfra("harness self-check failed in worker: " + lastLine(stderr.String()))
					return
				default:
					// the process died (e.g. a Go runtime fatal error such as
					// "concurrent map writes"): find the run that kills it
					idx := c.findCrashingRun(phc, wid, from, deadline)
					if idx < 0 {
						// not alone: perhaps only after the runs before it
						i, rf := c.crashAfterHistory(phc, wid, from)
						if rf != nil {
							c.mu.Lock()
							c.histCrashes = append(c.histCrashes, rf)
							c.mu.Unlock()
							from = i + 1
							continue
						}
						c.addInfra(fmt.Sprintf("worker %d exited with code %d and the crash did not recur: %s", wid, code, lastLine(stderr.String())))
						return
					}
					from = idx + 1
				}
			}
		}(wid)
	}
	wg.Wait()
}

// chunkEnd returns the end of the worker-process chunk that contains run `from`.
// Chunk boundaries are absolute positions (the same for every worker and every
// execution of the check), sizes cycle through short and long process lives.
// C19's containers have no process-wide state: one process per worker.
func (c *coord) chunkEnd(from, runs int) int {
	if c.prop == "C19" {
		return runs
	}
	sizes := []int{40, 200, 24, 1000, 120, 16, 600, 64}
	b := 0
	for i := 0; b <= from; i++ {
		b += sizes[i%len(sizes)]
	}
	if b > runs {
		b = runs
	}
	return b
}

// findCrashingRun re-executes the runs from `from` one process per run until
// one dies, and records it as a crash candidate (replayed by seed).
func (c *coord) findCrashingRun(ph phase, wid, from int, deadline time.Time) int {
	for i := from; i < ph.runs && i < from+100000; i++ {
		if time.Now().After(deadline) {
			return -1
		}
		cmd := c.workerCmd(ph, wid, i, i+1, deadline.Add(time.Minute))
		var stderr, stdout bytes.Buffer
		cmd.Stderr, cmd.Stdout = &stderr, &stdout
		err := cmd.Run()
		if err == nil {
			// fold its results in (a SUM line for one run)
			for _, line := range strings.Split(stdout.String(), "\n") {
				if strings.HasPrefix(line, "CAND ") {
					var cd Candidate
					if json.Unmarshal([]byte(line[5:]), &cd) == nil {
						c.mu.Lock()
						c.cands = append(c.cands, &cd)
						c.mu.Unlock()
					}
				}
			}
			continue
		}
		if ee, ok := err.(*exec.ExitError); ok && ee.ExitCode() == exitFatalRun {
			continue
		}
		msg := firstFatalLine(stderr.String())
		cd := &Candidate{Prop: c.prop, Seed: c.seed, RunIdx: i, Wid: wid, Race: ph.race, Explore: true,
			Violation: Violation{Class: "crash", Kind: msg, Detail: "the process died: " + msg}}
		c.mu.Lock()
		c.cands = append(c.cands, cd)
		c.mu.Unlock()
		return i
	}
	return -1
}

func firstFatalLine(s string) string {
	for _, l := range strings.Split(s, "\n") {
		if strings.HasPrefix(l, "fatal error:") || strings.HasPrefix(l, "panic:") {
			return l
		}
	}
	return lastLine(s)
}

func (c *coord) addInfra(m string) {
	c.mu.Lock()
	c.infra = append(c.infra, m)
	c.mu.Unlock()
}

// ---- evaluation of one candidate in a fresh process ---------------------------

type evalResult struct {
	out     *Run1Out
	crashed string
}

func (c *coord) eval(cd *Candidate) evalResult {
	bin := c.plainBin
	if cd.Race {
		bin = c.raceBin
	}
	in, _ := json.Marshal(map[string]any{"world": cd.World, "tape": cd.Tape})
	cmd := exec.Command(bin, "run1", "-golden-dir", c.goldDir, "-golden-bin", c.plainBin, "-v")
	cmd.Stdin = bytes.NewReader(in)
	cmd.Env = append(os.Environ(), "GOMAXPROCS=2")
	if cd.Race {
		f, _ := os.CreateTemp(filepath.Join(c.scratch, "race"), "r1-")
		name := f.Name()
		f.Close()
		os.Remove(name)
		cmd.Env = append(cmd.Env, "GORACE=log_path="+name+" halt_on_error=0 exitcode=0")
		defer func() {
			m, _ := filepath.Glob(name + ".*")
			for _, x := range m {
				os.Remove(x)
			}
		}()
	}
	var stdout, stderr bytes.Buffer
	cmd.Stdout, cmd.Stderr = &stdout, &stderr
	if err := cmd.Start(); err != nil {
		return evalResult{crashed: "start: " + err.Error()}
	}
	done := make(chan error, 1)
	go func() { done <- cmd.Wait() }()
	select {
	case err := <-done:
		if err != nil {
			return evalResult{crashed: firstFatalLine(stderr.String())}
		}
	case <-time.After(60 * time.Second):
		_ = cmd.Process.Kill()
		return evalResult{crashed: "timeout"}
	}
	var o Run1Out
	if json.Unmarshal(bytes.TrimSpace(stdout.Bytes()), &o) != nil {
		return evalResult{crashed: "undecodable run1 output"}
	}
	return evalResult{out: &o}
}

// same reports whether the evaluation shows the violation we are minimising.
func same(want *Violation, r evalResult) bool {
	if want.Class == "crash" {
		return r.crashed != "" && r.crashed != "timeout" && strings.HasPrefix(r.crashed, strings.SplitN(want.Kind, ":", 2)[0])
	}
	if r.out == nil || r.out.Violation == nil {
		return false
	}
	v := r.out.Violation
	if v.Class != want.Class {
		return false
	}
	switch want.Class {
	case "race", "deadlock", "step-cap", "lin":
		return true
	}
	return v.Kind == want.Kind
}

// ---- conclusion: confirm, minimise, match known findings, report ---------------

type knownFinding struct {
	Status   string `json:"status"` // open | fixed
	Property string `json:"property"`
	Class    string `json:"class,omitempty"`
	Kind     string `json:"kind,omitempty"`
	Match    string `json:"match,omitempty"` // substring of the minimised violation's description
	What     string `json:"what"`
	Commit   string `json:"commit,omitempty"`
}

func (c *coord) loadKnown() []knownFinding {
	var f struct {
		Findings []knownFinding `json:"findings"`
	}
	b, err := os.ReadFile(filepath.Join(c.verif, "known_findings.json"))
	if err != nil {
		return nil
	}
	_ = json.Unmarshal(b, &f)
	return f.Findings
}

type ReplayFile struct {
	Property  string                 `json:"property"`
	Seed      uint64                 `json:"verif_seed"`
	RunIdx    int                    `json:"run_idx"`
	Race      bool                   `json:"race_build"`
	Class     string                 `json:"class"`
	Kind      string                 `json:"kind"`
	Detail    string                 `json:"detail"`
	Want      string                 `json:"want,omitempty"`
	Got       string                 `json:"got,omitempty"`
	World     *World                 `json:"world"`
	Tape      [simrt.NKinds][]uint32 `json:"tape"`
	TapeKinds [simrt.NKinds]string   `json:"tape_streams"`
	Expect    struct {
		EventHash uint64 `json:"event_hash"`
		ObsHash   uint64 `json:"obs_hash"`
		Steps     int64  `json:"steps"`
	} `json:"expect"`
	Events     []string `json:"last_events,omitempty"`
	RaceReport string   `json:"race_report,omitempty"`
	Original   struct {
		Ops   int `json:"ops"`
		Tasks int `json:"tasks"`
		Tape  int `json:"tape_len"`
	} `json:"before_minimisation"`
	Minimised struct {
		Ops   int `json:"ops"`
		Tasks int `json:"tasks"`
		Tape  int `json:"tape_len"`
		Evals int `json:"evaluations"`
	} `json:"after_minimisation"`
	Note string `json:"note,omitempty"`
	// set when the violation only shows after the worker's earlier runs (state
	// that survives between runs in one process): replay = re-execute this range
	// of the worker's run sequence in one fresh process
	WorkerRange *WorkerRange `json:"worker_range,omitempty"`
}

type WorkerRange struct {
	Wid  int    `json:"wid"`
	From int    `json:"from"`
	To   int    `json:"to"`
	Tier string `json:"tier"`
}

// runWorkerRange executes runs [from,to) of worker wid in one fresh process and
// returns the candidates it emitted.
func (c *coord) runWorkerRange(race bool, wid, from, to int) []*Candidate {
	ph := phase{race: race}
	cmd := c.workerCmd(ph, wid, from, to, time.Now().Add(10*time.Minute))
	var stdout bytes.Buffer
	cmd.Stdout = &stdout
	_ = cmd.Run()
	var out []*Candidate
	for _, line := range strings.Split(stdout.String(), "\n") {
		if strings.HasPrefix(line, "CAND ") {
			var cd Candidate
			if json.Unmarshal([]byte(line[5:]), &cd) == nil {
				out = append(out, &cd)
			}
		}
	}
	return out
}

// crashPoint runs [from,to) of a worker in one process with progress markers
// and reports the run during which the process died (-1: it did not die).
func (c *coord) crashPoint(race bool, wid, from, to int) (int, string) {
	ph := phase{race: race, extra: []string{"-progress"}}
	cmd := c.workerCmd(ph, wid, from, to, time.Now().Add(10*time.Minute))
	var stdout, stderr bytes.Buffer
	cmd.Stdout, cmd.Stderr = &stdout, &stderr
	err := cmd.Run()
	code := 0
	if ee, ok := err.(*exec.ExitError); ok {
		code = ee.ExitCode()
	}
	if err == nil || code == exitFatalRun || code == exitHarnessBug {
		return -1, ""
	}
	last := -1
	for _, line := range strings.Split(stdout.String(), "\n") {
		if strings.HasPrefix(line, "AT ") {
			last, _ = strconv.Atoi(strings.TrimSpace(line[3:]))
		}
	}
	return last, firstFatalLine(stderr.String())
}

// crashAfterHistory localises a worker death that single-run processes do not
// show: the shortest suffix [j, i] of the worker's run sequence after which run
// i kills the process.
func (c *coord) crashAfterHistory(ph phase, wid, from int) (int, *ReplayFile) {
	i, msg := c.crashPoint(ph.race, wid, from, ph.runs)
	if i < 0 {
		return -1, nil
	}
	lo := from
	// tighten the start: largest j for which [j, i] still dies in run i
	l, h := from, i
	for l < h {
		mid := (l + h + 1) / 2
		if k, _ := c.crashPoint(ph.race, wid, mid, i+1); k == i {
			l = mid
		} else {
			h = mid - 1
		}
	}
	lo = l
	k1, m1 := c.crashPoint(ph.race, wid, lo, i+1)
	k2, _ := c.crashPoint(ph.race, wid, lo, i+1)
	if k1 != i || k2 != i {
		return i, nil
	}
	rf := &ReplayFile{Property: c.prop, Seed: c.seed, RunIdx: i, Race: ph.race}
	rf.TapeKinds = simrt.KindNames
	rf.Class, rf.Kind = "crash", m1
	if m1 == "" {
		rf.Kind = msg
	}
	rf.Detail = fmt.Sprintf("the process dies (%s) in run %d, but only after runs %d..%d of the same worker process: the failure depends on what the process handled before", rf.Kind, i, lo, i-1)
	rf.WorkerRange = &WorkerRange{Wid: wid, From: lo, To: i + 1, Tier: c.tier}
	cd := &Candidate{Prop: c.prop, Seed: c.seed, RunIdx: i, Wid: wid, Explore: true}
	c.materialise(cd)
	rf.World = cd.World
	if rf.World == nil {
		rf.World = &World{Prop: c.prop}
	}
	rf.Note = "replay re-executes the worker range in one fresh process and expects it to die in the last run"
	return i, rf
}

func findRun(cands []*Candidate, idx int, v *Violation) *Candidate {
	for _, cd := range cands {
		if cd.RunIdx == idx && cd.Violation.Class == v.Class && cd.Violation.Kind == v.Kind {
			return cd
		}
	}
	return nil
}

// prefixReproduce looks for the shortest suffix [j, i] of the worker's run
// sequence that still makes run i fail the same way.
func (c *coord) prefixReproduce(cd *Candidate) *ReplayFile {
	if c.prop == "C19" || cd.World == nil {
		return nil
	}
	i := cd.RunIdx
	hit := -1
	for back := 1; ; back *= 2 {
		j := i - back
		if j < 0 {
			j = 0
		}
		if findRun(c.runWorkerRange(cd.Race, cd.Wid, j, i+1), i, &cd.Violation) != nil {
			hit = j
			break
		}
		if j == 0 {
			return nil
		}
	}
	// tighten: largest j in [hit, i-1] that still reproduces
	lo, hi := hit, i-1
	for lo < hi {
		mid := (lo + hi + 1) / 2
		if findRun(c.runWorkerRange(cd.Race, cd.Wid, mid, i+1), i, &cd.Violation) != nil {
			lo = mid
		} else {
			hi = mid - 1
		}
	}
	// must reproduce twice
	r1 := findRun(c.runWorkerRange(cd.Race, cd.Wid, lo, i+1), i, &cd.Violation)
	r2 := findRun(c.runWorkerRange(cd.Race, cd.Wid, lo, i+1), i, &cd.Violation)
	if r1 == nil || r2 == nil {
		return nil
	}
	rf := &ReplayFile{Property: c.prop, Seed: c.seed, RunIdx: i, Race: cd.Race, World: r1.World, Tape: r1.Tape}
	rf.TapeKinds = simrt.KindNames
	rf.Class, rf.Kind, rf.Want, rf.Got = r1.Violation.Class, r1.Violation.Kind, r1.Violation.Want, r1.Violation.Got
	rf.Detail = r1.Violation.Detail + fmt.Sprintf(" — only after runs %d..%d of the same worker process: the result depends on what the process handled before (state surviving between independent histories)", lo, i-1)
	rf.WorkerRange = &WorkerRange{Wid: cd.Wid, From: lo, To: i + 1, Tier: c.tier}
	rf.Original.Ops, rf.Original.Tasks = numOps(cd.World), len(cd.World.Tasks)
	rf.Note = "the world and tape shown are those of the failing (last) run; replay re-executes the whole range"
	return rf
}

// composeHistory builds, for a one-task property, a single world out of the runs
// of a worker range: first the operations of the earlier run(s), then those of
// the failing run. The failing run's objects come first in the object list (C09
// judges objects 0 and 1; later ones are unjudged noise there). Returns a
// candidate that reproduces the violation class/kind on the canonical tape, or nil.
func (c *coord) composeHistory(cd *Candidate, wr *WorkerRange) *Candidate {
	if wr == nil || (c.prop != "C09" && c.prop != "C10") {
		return nil
	}
	last := &Candidate{Prop: c.prop, Seed: cd.Seed, RunIdx: wr.To - 1, Wid: cd.Wid}
	c.materialise(last)
	if last.World == nil || len(last.World.Tasks) != 1 {
		return nil
	}
	try := func(runs []int) *Candidate {
		w := last.World.Clone()
		w.Explore = false
		var pre []Op
		for _, i := range runs {
			e := &Candidate{Prop: c.prop, Seed: cd.Seed, RunIdx: i, Wid: cd.Wid}
			c.materialise(e)
			if e.World == nil || len(e.World.Tasks) != 1 {
				return nil
			}
			shift := len(w.Objects)
			for _, o := range e.World.Objects {
				if o.ShareWith > 0 {
					o.ShareWith += shift
				}
				w.Objects = append(w.Objects, o)
			}
			for _, op := range e.World.Tasks[0] {
				if op.Kind != "gc" {
					op.Obj += shift
				}
				op.PanicAt = 0
				pre = append(pre, op)
			}
			if len(w.Objects) > 80 {
				return nil
			}
		}
		w.Tasks = [][]Op{append(pre, w.Tasks[0]...)}
		n := &Candidate{Prop: c.prop, Seed: cd.Seed, RunIdx: cd.RunIdx, Wid: cd.Wid, Race: cd.Race, World: w, Violation: cd.Violation}
		if same(&cd.Violation, c.eval(n)) {
			return n
		}
		return nil
	}
	// the first run of the range is needed (the range was tightened from the left);
	// the runs between it and the failing one usually are not
	if n := try([]int{wr.From}); n != nil {
		return n
	}
	if wr.To-1-wr.From <= 12 {
		var all []int
		for i := wr.From; i < wr.To-1; i++ {
			all = append(all, i)
		}
		return try(all)
	}
	return nil
}

func tapeLen(t [simrt.NKinds][]uint32) int {
	n := 0
	for _, s := range t {
		for _, v := range s {
			if v != 0 {
				n++
			}
		}
	}
	return n
}

func (c *coord) conclude() int {
	// group candidates by signature, smallest first
	groups := map[string][]*Candidate{}
	for _, cd := range c.cands {
		if cd.World == nil && !cd.Explore {
			continue
		}
		sig := cd.Violation.Class + "/" + cd.Violation.Kind + "/" + fingerprint(cd.Violation.Want, cd.Violation.Got)
		if cd.Violation.Class == "race" || cd.Violation.Class == "deadlock" || cd.Violation.Class == "lin" {
			sig = cd.Violation.Class
		}
		groups[sig] = append(groups[sig], cd)
	}
	sigs := make([]string, 0, len(groups))
	for s := range groups {
		sigs = append(sigs, s)
	}
	sort.Strings(sigs)
	known := c.loadKnown()
	exit := 0
	reported := 0
	var replayPaths []string
	for k, rf := range c.histCrashes {
		if k >= 2 {
			break
		}
		path := filepath.Join(c.verif, "replays", fmt.Sprintf("%s-%d-%s.json", c.prop, c.seed, shortHash(rf)))
		_ = os.MkdirAll(filepath.Dir(path), 0o755)
		b, _ := json.MarshalIndent(rf, "", " ")
		_ = os.WriteFile(path, b, 0o644)
		fmt.Printf("jsim: crash on %s: %s\n", rf.Kind, rf.Detail)
		fmt.Printf("VIOLATION property=%s replay=%s\n", c.prop, path)
		replayPaths = append(replayPaths, path)
		exit = 1
		reported++
	}
	budgetEnd := time.Now().Add(6 * time.Minute)
	for _, sig := range sigs {
		g := groups[sig]
		sort.SliceStable(g, func(i, j int) bool { return candSize(g[i]) < candSize(g[j]) })
		if reported >= 6 {
			fmt.Printf("jsim: further violation signature not minimised (limit reached): %s (%d runs)\n", sig, len(g))
			continue
		}
		var confirmed *Candidate
		for k := 0; k < len(g) && k < 4 && confirmed == nil; k++ {
			cd := g[k]
			if cd.Explore {
				c.materialise(cd)
			}
			if cd.World == nil {
				continue
			}
			if cd.Violation.Class == "reference-unstable" {
				confirmed = cd
				break
			}
			if same(&cd.Violation, c.eval(cd)) {
				confirmed = cd
			}
		}
		if confirmed == nil {
			// Perhaps the run only fails after the runs the same worker process
			// executed before it (process-wide state surviving between runs).
			if rf := c.prefixReproduce(g[0]); rf != nil {
				// A dependence on earlier runs of a one-task property is a longer
				// history: try to say it as ONE world (the earlier run's operations,
				// then the failing run's), which minimises and replays from a tape
				// like any other violation. If that does not reproduce, the range
				// replay stands.
				if comp := c.composeHistory(g[0], rf.WorkerRange); comp != nil {
					if mrf := c.minimise(comp, budgetEnd); mrf != nil {
						mrf.Detail += fmt.Sprintf(" (found as a dependence of run %d on runs %d..%d of the same worker process; composed into one history and minimised)", rf.WorkerRange.To-1, rf.WorkerRange.From, rf.WorkerRange.To-2)
						rf = mrf
					}
				}
				path := filepath.Join(c.verif, "replays", fmt.Sprintf("%s-%d-%s.json", c.prop, c.seed, shortHash(rf)))
				_ = os.MkdirAll(filepath.Dir(path), 0o755)
				b, _ := json.MarshalIndent(rf, "", " ")
				_ = os.WriteFile(path, b, 0o644)
				reported++
				fmt.Printf("jsim: %s on %s: %s\n", rf.Class, rf.Kind, rf.Detail)
				fmt.Printf("jsim:   want %s\njsim:   got  %s\n", clip(rf.Want, 300), clip(rf.Got, 300))
				fmt.Printf("VIOLATION property=%s replay=%s\n", c.prop, path)
				replayPaths = append(replayPaths, path)
				exit = 1
				continue
			}
			c.addInfra("NOT-REPRODUCED: a candidate violation (" + sig + ") did not recur when replayed in a fresh process, alone or after the worker's earlier runs")
			continue
		}
		rf := c.minimise(confirmed, budgetEnd)
		if rf == nil {
			c.addInfra("NOT-REPRODUCED: the minimised form of " + sig + " did not replay twice identically")
			continue
		}
		path := filepath.Join(c.verif, "replays", fmt.Sprintf("%s-%d-%s.json", c.prop, c.seed, shortHash(rf)))
		_ = os.MkdirAll(filepath.Dir(path), 0o755)
		b, _ := json.MarshalIndent(rf, "", " ")
		_ = os.WriteFile(path, b, 0o644)
		reported++
		desc := rf.Class + " " + rf.Kind + " " + rf.Detail + " " + worldText(rf.World)
		matched := false
		for _, k := range known {
			if k.Status != "open" || k.Property != c.prop {
				continue
			}
			if (k.Class == "" || k.Class == rf.Class) && (k.Kind == "" || k.Kind == rf.Kind) && (k.Match == "" || strings.Contains(desc, k.Match)) {
				fmt.Printf("KNOWN-FINDING: property=%s %s (replay=%s)\n", c.prop, k.What, path)
				matched = true
				break
			}
		}
		if !matched {
			fmt.Printf("jsim: %s on %s: %s\n", rf.Class, rf.Kind, rf.Detail)
			if rf.Want != "" || rf.Got != "" {
				fmt.Printf("jsim:   want %s\njsim:   got  %s\n", clip(rf.Want, 300), clip(rf.Got, 300))
			}
			fmt.Printf("VIOLATION property=%s replay=%s\n", c.prop, path)
			replayPaths = append(replayPaths, path)
			exit = 1
		}
	}
	nviol := len(replayPaths)
	c.writeEvidence(nviol, replayPaths)
	if len(c.infra) > 0 && exit == 0 {
		for _, m := range c.infra {
			fmt.Println("jsim: INCONCLUSIVE:", m)
		}
		return 2
	}
	if exit == 0 {
		fmt.Printf("jsim: property %s held on everything explored (%d runs)\n", c.prop, c.totalRuns())
	}
	return exit
}

// fingerprint characterises *where* two observations differ (text around the
// first difference, digits folded), so that different causes on the same call
// kind are minimised and reported separately.
func fingerprint(want, got string) string {
	if want == "" && got == "" {
		return ""
	}
	i := 0
	for i < len(want) && i < len(got) && want[i] == got[i] {
		i++
	}
	lo := i - 10
	if lo < 0 {
		lo = 0
	}
	hi := i + 6
	if hi > len(want) {
		hi = len(want)
	}
	b := []byte(want[lo:hi])
	for k := range b {
		if b[k] >= '0' && b[k] <= '9' {
			b[k] = '0'
		}
	}
	return string(b)
}

func clip(s string, n int) string {
	if len(s) > n {
		return s[:n] + "…"
	}
	return s
}

func worldText(w *World) string {
	if w == nil {
		return ""
	}
	var sb strings.Builder
	for i := range w.Objects {
		sb.WriteString(w.Objects[i].Text + "\n")
		for _, t := range w.Objects[i].Types {
			sb.WriteString(t.Text + "\n")
		}
	}
	return sb.String()
}

func shortHash(rf *ReplayFile) string {
	b, _ := json.Marshal(rf.World)
	return fmt.Sprintf("%08x", fnv(fnv(0, string(b)), rf.Class+rf.Kind)&0xffffffff)
}

func candSize(cd *Candidate) int {
	if cd.World == nil {
		return 1 << 30
	}
	return numOps(cd.World)*100 + len(cd.World.Objects)
}

// materialise turns a replay-by-seed candidate (a run whose process died) into
// a (world, tape) one. The world is regenerated from the seed; the tape is
// left empty and the replay runs in explore mode from World.Seed.
func (c *coord) materialise(cd *Candidate) {
	loadCorpus(c.corpus)
	bigWorlds = c.tier == "thorough"
	switch c.prop {
	case "C09":
		noiseBase = hashSeed(cd.Seed, 909, uint64(cd.Wid))
		pj := cd.RunIdx / 8
		pr := &rng{s: hashSeed(cd.Seed, 9, uint64(cd.Wid), uint64(pj), 77)}
		proj := genProjectIndexed(pr, cd.Wid, pj, c.tier)
		cd.World = genWorldC09(hashSeed(cd.Seed, 9, uint64(cd.Wid), uint64(cd.RunIdx)), &proj)
	case "C10":
		cd.World = genWorldC10(hashSeed(cd.Seed, 10, uint64(cd.Wid), uint64(cd.RunIdx)), cd.RunIdx%4 != 0)
	case "C11":
		cd.World = genWorldC11(hashSeed(cd.Seed, 11, uint64(cd.Wid), uint64(cd.RunIdx)), cd.RunIdx%5 == 4)
	}
	if cd.World != nil {
		cd.World.Explore = true
	}
}

func (c *coord) totalRuns() int {
	n := 0
	for _, s := range c.sums {
		n += s.Runs
	}
	return n
}

// ---- minimisation ---------------------------------------------------------------

func (c *coord) minimise(cd *Candidate, budgetEnd time.Time) *ReplayFile {
	rf := &ReplayFile{Property: c.prop, Seed: c.seed, RunIdx: cd.RunIdx, Race: cd.Race}
	rf.TapeKinds = simrt.KindNames
	rf.Original.Ops, rf.Original.Tasks, rf.Original.Tape = numOps(cd.World), len(cd.World.Tasks), tapeLen(cd.Tape)
	want := cd.Violation
	evals := 0
	maxEvals := 2000
	if cd.Race || want.Class == "deadlock" || want.Class == "step-cap" || want.Class == "crash" {
		maxEvals = 400
	}
	cur := &Candidate{Prop: cd.Prop, Seed: cd.Seed, RunIdx: cd.RunIdx, Wid: cd.Wid, Race: cd.Race, World: cd.World.Clone(), Tape: cd.Tape, Violation: want}

	if want.Class == "reference-unstable" {
		// confirmed by re-sampling fresh reference processes, not by tape
		w := cur.World
		w.Objects = w.Objects[:1]
		w.Tasks = [][]Op{{}}
		ok := false
		for i := 0; i < 64 && !ok; i++ {
			o1, e1 := runGoldenProc(c.plainBin, mustJSON(&w.Objects[0]), i*13, 1+i%16)
			o2, e2 := runGoldenProc(c.plainBin, mustJSON(&w.Objects[0]), 500+i*7, 16)
			if e1 == "" && e2 == "" {
				for k, v := range o1 {
					if o2[k] != v {
						ok = true
						rf.Kind, rf.Want, rf.Got = k, v, o2[k]
					}
				}
			}
		}
		if !ok {
			return nil
		}
		rf.Class, rf.Detail, rf.World = want.Class, "two fresh processes given the same input return different results (nondeterminism no seam owns; confirmed by re-sampling, not by tape)", w
		rf.Note = "replay = run the project in fresh processes until two observations differ"
		return rf
	}

	try := func(cands []*Candidate) *Candidate {
		// evaluate a batch concurrently, accept the first (in order) that still fails the same way
		res := make([]bool, len(cands))
		var wg sync.WaitGroup
		sem := make(chan struct{}, c.nworkers)
		for i := range cands {
			wg.Add(1)
			sem <- struct{}{}
			go func(i int) {
				defer wg.Done()
				defer func() { <-sem }()
				res[i] = same(&want, c.eval(cands[i]))
			}(i)
		}
		wg.Wait()
		evals += len(cands)
		for i := range cands {
			if res[i] {
				return cands[i]
			}
		}
		return nil
	}
	withWorld := func(f func(w *World) bool) *Candidate {
		n := *cur
		n.World = cur.World.Clone()
		if !f(n.World) {
			return nil
		}
		return &n
	}
	withTape := func(f func(t *[simrt.NKinds][]uint32) bool) *Candidate {
		n := *cur
		for k := range cur.Tape {
			n.Tape[k] = append([]uint32(nil), cur.Tape[k]...)
		}
		if !f(&n.Tape) {
			return nil
		}
		return &n
	}
	minTasks := 1
	for progress := true; progress && evals < maxEvals && time.Now().Before(budgetEnd); {
		progress = false
		var batch []*Candidate
		add := func(n *Candidate) {
			if n != nil {
				batch = append(batch, n)
			}
		}
		// 0. C19: the history lives inside the container world
		if cur.World.Prop == "C19" {
			cw := c19Of(cur.World)
			if cw == nil {
				break
			}
			edit := func(f func(cw *C19World) bool) {
				add(withWorld(func(w *World) bool {
					c2 := c19Of(w)
					if c2 == nil || !f(c2) {
						return false
					}
					b, _ := json.Marshal(c2)
					w.Objects[0].Text = string(b)
					return true
				}))
			}
			L := len(cw.Ops)
			for size := L / 2; size >= 1; size /= 2 {
				for at := 0; at+size <= L; at += size {
					at, size := at, size
					edit(func(c2 *C19World) bool {
						c2.Ops = append(c2.Ops[:at:at], c2.Ops[at+size:]...)
						return true
					})
				}
			}
			edit(func(c2 *C19World) bool {
				if c2.Init == "zero" {
					return false
				}
				c2.Init, c2.InitKeys = "zero", nil
				return true
			})
			for i := range cw.Ops {
				i := i
				edit(func(c2 *C19World) bool {
					if c2.Ops[i].FailAt == 0 {
						return false
					}
					c2.Ops[i].FailAt = 0
					return true
				})
				edit(func(c2 *C19World) bool {
					if c2.Ops[i].Key == 0 {
						return false
					}
					c2.Ops[i].Key = 0
					return true
				})
			}
			if n := try(batch); n != nil {
				cur, progress = n, true
			}
			continue
		}
		// 1. drop whole tasks
		for t := range cur.World.Tasks {
			t := t
			add(withWorld(func(w *World) bool {
				if len(w.Tasks) <= minTasks {
					return false
				}
				w.Tasks = append(w.Tasks[:t:t], w.Tasks[t+1:]...)
				return true
			}))
		}
		// 2. drop all operations of one object
		for o := range cur.World.Objects {
			o := o
			add(withWorld(func(w *World) bool {
				ch := false
				for t := range w.Tasks {
					kept := w.Tasks[t][:0:0]
					for _, op := range w.Tasks[t] {
						if op.Kind != "gc" && op.Obj == o {
							ch = true
							continue
						}
						kept = append(kept, op)
					}
					w.Tasks[t] = kept
				}
				return ch
			}))
		}
		if n := try(batch); n != nil {
			cur, progress = n, true
			continue
		}
		batch = nil
		// 3. drop chunks of operations, then single ones
		for t := range cur.World.Tasks {
			L := len(cur.World.Tasks[t])
			for size := L / 2; size >= 1; size /= 2 {
				for at := 0; at+size <= L; at += size {
					t, at, size := t, at, size
					add(withWorld(func(w *World) bool {
						w.Tasks[t] = append(w.Tasks[t][:at:at], w.Tasks[t][at+size:]...)
						return true
					}))
				}
				if len(batch) > 64 {
					break
				}
			}
		}
		if n := try(batch); n != nil {
			cur, progress = n, true
			continue
		}
		batch = nil
		// 4. simplify projects: drop types / rules, undo registration permutations and variations
		for o := range cur.World.Objects {
			for ti := range cur.World.Objects[o].Types {
				o, ti := o, ti
				add(withWorld(func(w *World) bool {
					p := &w.Objects[o]
					p.Types = append(p.Types[:ti:ti], p.Types[ti+1:]...)
					for t := range w.Tasks {
						for k := range w.Tasks[t] {
							if w.Tasks[t][k].Obj == o {
								w.Tasks[t][k].TPerm = nil
							}
						}
					}
					return true
				}))
			}
			for ri := range cur.World.Objects[o].Rules {
				o, ri := o, ri
				add(withWorld(func(w *World) bool {
					p := &w.Objects[o]
					p.Rules = append(p.Rules[:ri:ri], p.Rules[ri+1:]...)
					for t := range w.Tasks {
						for k := range w.Tasks[t] {
							if w.Tasks[t][k].Obj == o {
								w.Tasks[t][k].RPerm = nil
							}
						}
					}
					return true
				}))
			}
		}
		add(withWorld(func(w *World) bool {
			ch := false
			for t := range w.Tasks {
				for k := range w.Tasks[t] {
					op := &w.Tasks[t][k]
					if op.TPerm != nil || op.RPerm != nil {
						op.TPerm, op.RPerm, ch = nil, nil, true
					}
				}
			}
			return ch
		}))
		add(withWorld(func(w *World) bool {
			ch := false
			for t := range w.Tasks {
				for k := range w.Tasks[t] {
					if w.Tasks[t][k].PanicAt != 0 {
						w.Tasks[t][k].PanicAt, ch = 0, true
					}
				}
			}
			return ch
		}))
		if n := try(batch); n != nil {
			cur, progress = n, true
			continue
		}
		batch = nil
		// 5. decision tape: zero whole streams, truncate, zero chunks of non-zero decisions
		for k := 0; k < simrt.NKinds; k++ {
			k := k
			add(withTape(func(t *[simrt.NKinds][]uint32) bool {
				nz := false
				for _, v := range t[k] {
					if v != 0 {
						nz = true
					}
				}
				t[k] = nil
				return nz
			}))
		}
		for k := 0; k < simrt.NKinds; k++ {
			var nzIdx []int
			for i, v := range cur.Tape[k] {
				if v != 0 {
					nzIdx = append(nzIdx, i)
				}
			}
			for size := len(nzIdx) / 2; size >= 1; size /= 2 {
				for at := 0; at+size <= len(nzIdx); at += size {
					k, idx := k, nzIdx[at:at+size]
					add(withTape(func(t *[simrt.NKinds][]uint32) bool {
						for _, i := range idx {
							t[k][i] = 0
						}
						return true
					}))
				}
				if len(batch) > 96 {
					break
				}
			}
		}
		if n := try(batch); n != nil {
			cur, progress = n, true
			continue
		}
	}
	// drop unreferenced objects (renumber), trailing zeros of the tape
	compactWorld(cur.World)
	for k := range cur.Tape {
		t := cur.Tape[k]
		for len(t) > 0 && t[len(t)-1] == 0 {
			t = t[:len(t)-1]
		}
		cur.Tape[k] = t
	}
	// the minimised run must replay twice, identically, in fresh processes
	r1 := c.eval(cur)
	r2 := c.eval(cur)
	if !same(&want, r1) || !same(&want, r2) {
		// compaction may have changed the run; fall back to the uncompacted original
		cur = &Candidate{Prop: cd.Prop, Seed: cd.Seed, RunIdx: cd.RunIdx, Wid: cd.Wid, Race: cd.Race, World: cd.World, Tape: cd.Tape, Violation: want}
		r1, r2 = c.eval(cur), c.eval(cur)
		if !same(&want, r1) || !same(&want, r2) {
			return nil
		}
	}
	rf.World, rf.Tape = cur.World, cur.Tape
	rf.Minimised.Ops, rf.Minimised.Tasks, rf.Minimised.Tape, rf.Minimised.Evals = numOps(cur.World), len(cur.World.Tasks), tapeLen(cur.Tape), evals
	if cw := c19Of(cur.World); cur.World.Prop == "C19" && cw != nil {
		rf.Note = "history: " + c19Describe(cw)
	}
	rf.Class = want.Class
	if r1.out != nil && r1.out.Violation != nil {
		v := r1.out.Violation
		rf.Kind, rf.Detail, rf.Want, rf.Got = v.Kind, v.Detail, v.Want, v.Got
		rf.Expect.EventHash, rf.Expect.ObsHash, rf.Expect.Steps = r1.out.EventHash, r1.out.ObsHash, r1.out.Steps
		rf.Events = r1.out.Events
		rf.RaceReport = normalizeRace(r1.out.RaceText)
		if want.Class != "race" && (r2.out == nil || r2.out.EventHash != r1.out.EventHash || r2.out.ObsHash != r1.out.ObsHash) {
			// Both replays violate the same oracle on the same call kind, but they are
			// not the same execution: something the simulator does not own (time, an
			// unseeded random source, …) decides part of the run. The violation
			// stands (it was shown twice); the replay is confirmed by class, not by hash.
			rf.Note = strings.TrimSpace(rf.Note + " replays of this tape violate the same oracle but are not identical executions: the run depends on nondeterminism no seam owns (clock, unseeded randomness, …)")
			rf.Expect.EventHash, rf.Expect.ObsHash = 0, 0
		}
	} else {
		rf.Kind, rf.Detail = want.Kind, "the process dies: "+r1.crashed
	}
	return rf
}

func numOps(w *World) int {
	if w.Prop == "C19" {
		if cw := c19Of(w); cw != nil {
			return len(cw.Ops)
		}
	}
	return w.NumOps()
}

func mustJSON(v any) []byte {
	b, _ := json.Marshal(v)
	return b
}

func compactWorld(w *World) {
	if w.Prop == "C19" {
		return
	}
	used := make([]bool, len(w.Objects))
	for _, t := range w.Tasks {
		for _, op := range t {
			if op.Kind != "gc" && op.Obj < len(used) {
				used[op.Obj] = true
			}
		}
	}
	remap := make([]int, len(w.Objects))
	var objs []Project
	var shared []bool
	for i := range w.Objects {
		remap[i] = len(objs)
		if used[i] {
			objs = append(objs, w.Objects[i])
			if w.Shared != nil && i < len(w.Shared) {
				shared = append(shared, w.Shared[i])
			}
		}
	}
	for t := range w.Tasks {
		for k := range w.Tasks[t] {
			if w.Tasks[t][k].Kind != "gc" {
				w.Tasks[t][k].Obj = remap[w.Tasks[t][k].Obj]
			}
		}
	}
	w.Objects = objs
	if w.Shared != nil {
		w.Shared = shared
	}
}

// ---- evidence ---------------------------------------------------------------------

func (c *coord) writeEvidence(violations int, replays []string) {
	wall := time.Since(c.t0).Seconds()
	shapes := map[uint64]bool{}
	inter := map[uint64]bool{}
	faults := map[string]int64{}
	probes := map[string]int64{}
	skipped := map[string]int64{}
	sites := 0
	siteHit := map[int]bool{}
	var samples []json.RawMessage
	var runs, raceRuns, projects, goldens, lin, linU int
	var ops, steps, switches int64
	var workerWall float64
	for _, s := range c.sums {
		runs += s.Runs
		if s.Race {
			raceRuns += s.Runs
		}
		ops += s.Ops
		steps += s.Steps
		switches += s.Switches
		projects += s.Projects
		goldens += s.Goldens
		lin += s.LinChecked
		linU += s.LinUnknown
		workerWall += s.WallS
		for _, h := range s.Shapes {
			shapes[h] = true
		}
		for _, h := range s.Inter {
			inter[h] = true
		}
		for k, v := range s.Faults {
			faults[k] += v
		}
		for k, v := range s.Probes {
			probes[k] += v
		}
		for k, v := range s.Skipped {
			skipped[k] += v
		}
		if s.Sites > sites {
			sites = s.Sites
		}
		for _, h := range s.SitesHit {
			siteHit[h] = true
		}
		if len(samples) < 4 {
			samples = append(samples, s.Samples...)
		}
	}
	if c.prop != "C19" {
		faults["other-process"] = int64(goldens) * 2
	}
	if len(samples) == 0 {
		samples = append(samples, json.RawMessage(`"no run qualified as a sample"`))
	}
	rules := map[string]string{
		"C09": "one run = one project (frozen corpus text or grammar-generated, with tape-chosen type/rule bindings) executed on two simultaneously live object graphs under seeded variations of map iteration order, %p numbering and AddRule/AddType order, every call compared with the fresh-process reference pair; non-trivial = at least one variation actually fired (non-identity permutation on a >=2-key map, non-ascending address numbering, permuted registration); distinct = different (workload shape, fired-fault set, event-log hash)",
		"C10": "one run = one history of up to 40 public-API operations over 2-6 independent object graphs in one simulated task, with torn inputs, injected internal failures and pool behaviours (fresh/any/drop/GC) placed by the tape; non-trivial = at least one fault fired or a pooled item was reused; distinct = different (workload shape, fired-fault set, event-log hash)",
		"C11": "one run = 2-4 simulated tasks on own and/or one shared schema object, every interleaving decision at every synchronisation operation taken from the tape; non-trivial = at least one context switch or fault fired, or a pooled item crossed tasks / a Once was contended / an RWMutex blocked; distinct = different (workload shape, fired-fault set, event-log hash, i.e. different interleaving)",
		"C19": "one run = one single-client history on one generated container (rule map, AST-node map, constraint map, string set) compared with a reference insertion-ordered dictionary after every operation; non-trivial = the history mutates at least twice and contains a delete, a filter or a failing callback; distinct = different (operation sequence incl. arguments, container, constructor)",
	}
	cov := map[string]any{
		"evaluations":                  runs,
		"distinct_nontrivial":          len(shapes),
		"rule":                         rules[c.prop],
		"samples":                      samples,
		"runs_plain_build":             runs - raceRuns,
		"runs_race_build":              raceRuns,
		"operations":                   ops,
		"simulated_time_logical_steps": steps,
		"context_switches":             switches,
		"distinct_interleavings_by_event_log_hash": len(inter),
		"fault_kinds_fired":                        faults,
		"reach_probes":                             probes,
		"not_judged":                               skipped,
		"distinct_projects":                        projects,
		"reference_processes":                      goldens * 2,
		"failpoint_sites_total":                    sites,
		"failpoint_sites_reached":                  len(siteHit),
		"linearizability_checks":                   lin,
		"linearizability_inconclusive":             linU,
		"runs_per_hour":                            int(float64(runs) / wall * 3600),
		"seeds":                                    fmt.Sprintf("VERIF_SEED=%d; run i of worker w uses hash(VERIF_SEED, property, w, i)", c.seed),
		"workers":                                  c.nworkers,
		"components":                               "real: the whole library, encoding/json, regexp, reggen, fmt; wrapped (real primitive + simulator gate / yield point): sync.Mutex, sync.RWMutex, sync.Once, sync.WaitGroup, sync.Map, sync/atomic; replaced by a simulator-owned model: sync.Pool contents policy, sync.Cond, goroutine start and channel operations of the library (simulated tasks), map iteration order at range statements and sync.Map.Range, %p rendering, the clock (time.Now/Since/Until/Sleep), timers and tickers (time.After/NewTimer/AfterFunc/NewTicker/Tick: discrete-event list, the clock jumps to the next deadline when no task can run) and context deadlines (context.WithTimeout/WithDeadline), runtime.NumCPU/GOMAXPROCS; real but operated without blocking and polled: channels the library did not make (a context's Done channel); std sync.Pool never reuses under -race (overlay) so std pools add no happens-before edges; not simulated (the library has none): network, disk",
		"replays":                                  replays,
		"exhaustive":                               false,
	}
	if len(c.infra) > 0 {
		cov["inconclusive"] = c.infra
	}
	if c.prop != "C19" && sites > 0 {
		// which library functions the workload never entered (reach of the workload,
		// stated so a reader can see what a clean batch says nothing about)
		var un []string
		for i := 0; i < simrt.NSites() && i < sites; i++ {
			if !siteHit[i] {
				un = append(un, simrt.Sites[i].Pkg+"."+simrt.Sites[i].Func)
			}
		}
		sort.Strings(un)
		cov["failpoint_sites_unreached"] = un
	}
	ev := map[string]any{
		"property_id": c.prop,
		"tier":        map[bool]string{true: "thorough", false: "quick"}[c.tier == "thorough"],
		"seed":        int64(c.seed & 0x7fffffffffffffff),
		"level":       "exploration",
		"coverage":    cov,
		"assumptions": []string{
			"Go compiler/runtime and race detector are correct",
			"simprep's rewrites preserve semantics (map range -> snapshot iteration is a behaviour Go allows; sync wrappers call the real primitives)",
			"the fresh-process reference defines the sequential / first-in-process result (differential oracle, not absolute correctness)",
			"sampling, not proof: a clean batch is evidence",
		},
		"wall_s":     wall,
		"violations": violations,
	}
	b, _ := json.MarshalIndent(ev, "", " ")
	_ = os.MkdirAll(filepath.Join(c.verif, "evidence"), 0o755)
	_ = os.WriteFile(filepath.Join(c.verif, "evidence", c.prop+".json"), b, 0o644)
}

// ---- ./run replay <file> ------------------------------------------------------------

func replayMain(args []string) {
	fs := flag.NewFlagSet("replay", flag.ExitOnError)
	c := &coord{t0: time.Now(), nworkers: 4}
	file := fs.String("file", "", "")
	fs.StringVar(&c.scratch, "scratch", "", "")
	fs.StringVar(&c.plainBin, "plain", "", "")
	fs.StringVar(&c.raceBin, "race", "", "")
	corpusPath := fs.String("corpus", "", "")
	_ = fs.Parse(args)
	c.goldDir = filepath.Join(c.scratch, "golden")
	_ = os.MkdirAll(filepath.Join(c.scratch, "race"), 0o755)
	b, err := os.ReadFile(*file)
	var rf ReplayFile
	if err != nil || json.Unmarshal(b, &rf) != nil || rf.World == nil {
		fatalExit("replay: cannot read " + *file)
	}
	want := Violation{Class: rf.Class, Kind: rf.Kind}
	if rf.Class == "reference-unstable" {
		for i := 0; i < 64; i++ {
			o1, e1 := runGoldenProc(c.plainBin, mustJSON(&rf.World.Objects[0]), i*13, 1+i%16)
			o2, e2 := runGoldenProc(c.plainBin, mustJSON(&rf.World.Objects[0]), 500+i*7, 16)
			if e1 == "" && e2 == "" {
				for k, v := range o1 {
					if o2[k] != v {
						fmt.Printf("jsim: REPRODUCED %s on %s after %d process pairs\n  one: %s\n  other: %s\n", rf.Class, k, i+1, clip(v, 300), clip(o2[k], 300))
						fmt.Printf("VIOLATION property=%s replay=%s\n", rf.Property, *file)
						os.Exit(1)
					}
				}
			}
		}
		fmt.Println("jsim: NOT-REPRODUCED (64 fresh process pairs agreed)")
		os.Exit(0)
	}
	if rf.WorkerRange != nil {
		c.prop, c.seed, c.tier = rf.Property, rf.Seed, rf.WorkerRange.Tier
		c.corpus = *corpusPath
		if rf.Class == "crash" {
			c.nworkers = 1
			k, msg := c.crashPoint(rf.Race, rf.WorkerRange.Wid, rf.WorkerRange.From, rf.WorkerRange.To)
			if k != rf.WorkerRange.To-1 {
				fmt.Printf("jsim: NOT-REPRODUCED: runs %d..%d of worker %d no longer kill the process\n", rf.WorkerRange.From, rf.WorkerRange.To-1, rf.WorkerRange.Wid)
				os.Exit(0)
			}
			fmt.Printf("jsim: REPRODUCED crash (%s) in run %d after runs %d.. of the same process\n", msg, k, rf.WorkerRange.From)
			fmt.Printf("VIOLATION property=%s replay=%s\n", rf.Property, *file)
			os.Exit(1)
		}
		hit := findRun(c.runWorkerRange(rf.Race, rf.WorkerRange.Wid, rf.WorkerRange.From, rf.WorkerRange.To), rf.WorkerRange.To-1, &want)
		if hit == nil {
			fmt.Printf("jsim: NOT-REPRODUCED: runs %d..%d of worker %d no longer end in %s/%s\n", rf.WorkerRange.From, rf.WorkerRange.To-1, rf.WorkerRange.Wid, rf.Class, rf.Kind)
			os.Exit(0)
		}
		fmt.Printf("jsim: REPRODUCED %s/%s in run %d after runs %d.. of the same process\njsim:   want %s\njsim:   got  %s\n", rf.Class, rf.Kind, rf.WorkerRange.To-1, rf.WorkerRange.From, clip(hit.Violation.Want, 400), clip(hit.Violation.Got, 400))
		fmt.Printf("VIOLATION property=%s replay=%s\n", rf.Property, *file)
		os.Exit(1)
	}
	cd := &Candidate{Prop: rf.Property, Race: rf.Race, World: rf.World, Tape: rf.Tape}
	r := c.eval(cd)
	if !same(&want, r) {
		got := "no violation"
		if r.out != nil && r.out.Violation != nil {
			got = r.out.Violation.Class + "/" + r.out.Violation.Kind
		} else if r.crashed != "" {
			got = "process died: " + r.crashed
		}
		fmt.Printf("jsim: NOT-REPRODUCED: expected %s/%s, this tree gives: %s\n", rf.Class, rf.Kind, got)
		os.Exit(0)
	}
	exact := r.out != nil && r.out.EventHash == rf.Expect.EventHash && r.out.ObsHash == rf.Expect.ObsHash && r.out.Steps == rf.Expect.Steps
	if r.out != nil {
		fmt.Printf("jsim: REPRODUCED %s/%s at step %d (event-log hash %x; identical to the recorded execution: %v)\n", rf.Class, rf.Kind, r.out.Steps, r.out.EventHash, exact)
		if v := r.out.Violation; v != nil {
			fmt.Printf("jsim:   %s\njsim:   want %s\njsim:   got  %s\n", v.Detail, clip(v.Want, 400), clip(v.Got, 400))
		}
		for _, e := range r.out.Events {
			fmt.Println("jsim:   event:", e)
		}
		if r.out.RaceText != "" {
			fmt.Println(normalizeRace(r.out.RaceText))
		}
	} else {
		fmt.Printf("jsim: REPRODUCED %s: %s\n", rf.Class, r.crashed)
	}
	fmt.Printf("VIOLATION property=%s replay=%s\n", rf.Property, *file)
	os.Exit(1)
}
