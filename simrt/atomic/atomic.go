// Package atomic stands in for sync/atomic in the instrumented copy: every
// operation is a scheduling point of the simulator (a check-then-act sequence
// built from two atomic operations can be pre-empted between them), then the
// real operation runs, so the race detector sees the real primitive.
package atomic

import (
	stdatomic "sync/atomic"
	"unsafe"

	simrt "github.com/jsightapi/jsight-schema-core/simrt"
)

func y() { simrt.Yield(simrt.YAtomic, 0) }

type Int32 struct{ v stdatomic.Int32 }

func (x *Int32) Load() int32                    { y(); return x.v.Load() }
func (x *Int32) Store(n int32)                  { y(); x.v.Store(n) }
func (x *Int32) Swap(n int32) int32             { y(); return x.v.Swap(n) }
func (x *Int32) CompareAndSwap(o, n int32) bool { y(); return x.v.CompareAndSwap(o, n) }
func (x *Int32) Add(d int32) int32              { y(); return x.v.Add(d) }

type Int64 struct{ v stdatomic.Int64 }

func (x *Int64) Load() int64                    { y(); return x.v.Load() }
func (x *Int64) Store(n int64)                  { y(); x.v.Store(n) }
func (x *Int64) Swap(n int64) int64             { y(); return x.v.Swap(n) }
func (x *Int64) CompareAndSwap(o, n int64) bool { y(); return x.v.CompareAndSwap(o, n) }
func (x *Int64) Add(d int64) int64              { y(); return x.v.Add(d) }

type Uint32 struct{ v stdatomic.Uint32 }

func (x *Uint32) Load() uint32                    { y(); return x.v.Load() }
func (x *Uint32) Store(n uint32)                  { y(); x.v.Store(n) }
func (x *Uint32) Swap(n uint32) uint32            { y(); return x.v.Swap(n) }
func (x *Uint32) CompareAndSwap(o, n uint32) bool { y(); return x.v.CompareAndSwap(o, n) }
func (x *Uint32) Add(d uint32) uint32             { y(); return x.v.Add(d) }

type Uint64 struct{ v stdatomic.Uint64 }

func (x *Uint64) Load() uint64                    { y(); return x.v.Load() }
func (x *Uint64) Store(n uint64)                  { y(); x.v.Store(n) }
func (x *Uint64) Swap(n uint64) uint64            { y(); return x.v.Swap(n) }
func (x *Uint64) CompareAndSwap(o, n uint64) bool { y(); return x.v.CompareAndSwap(o, n) }
func (x *Uint64) Add(d uint64) uint64             { y(); return x.v.Add(d) }

type Uintptr struct{ v stdatomic.Uintptr }

func (x *Uintptr) Load() uintptr                    { y(); return x.v.Load() }
func (x *Uintptr) Store(n uintptr)                  { y(); x.v.Store(n) }
func (x *Uintptr) Swap(n uintptr) uintptr           { y(); return x.v.Swap(n) }
func (x *Uintptr) CompareAndSwap(o, n uintptr) bool { y(); return x.v.CompareAndSwap(o, n) }
func (x *Uintptr) Add(d uintptr) uintptr            { y(); return x.v.Add(d) }

type Bool struct{ v stdatomic.Bool }

func (x *Bool) Load() bool                    { y(); return x.v.Load() }
func (x *Bool) Store(n bool)                  { y(); x.v.Store(n) }
func (x *Bool) Swap(n bool) bool              { y(); return x.v.Swap(n) }
func (x *Bool) CompareAndSwap(o, n bool) bool { y(); return x.v.CompareAndSwap(o, n) }

type Pointer[T any] struct{ v stdatomic.Pointer[T] }

func (x *Pointer[T]) Load() *T                    { y(); return x.v.Load() }
func (x *Pointer[T]) Store(n *T)                  { y(); x.v.Store(n) }
func (x *Pointer[T]) Swap(n *T) *T                { y(); return x.v.Swap(n) }
func (x *Pointer[T]) CompareAndSwap(o, n *T) bool { y(); return x.v.CompareAndSwap(o, n) }

type Value struct{ v stdatomic.Value }

func (x *Value) Load() any                    { y(); return x.v.Load() }
func (x *Value) Store(n any)                  { y(); x.v.Store(n) }
func (x *Value) Swap(n any) any               { y(); return x.v.Swap(n) }
func (x *Value) CompareAndSwap(o, n any) bool { y(); return x.v.CompareAndSwap(o, n) }

func AddInt32(a *int32, d int32) int32         { y(); return stdatomic.AddInt32(a, d) }
func AddInt64(a *int64, d int64) int64         { y(); return stdatomic.AddInt64(a, d) }
func AddUint32(a *uint32, d uint32) uint32     { y(); return stdatomic.AddUint32(a, d) }
func AddUint64(a *uint64, d uint64) uint64     { y(); return stdatomic.AddUint64(a, d) }
func AddUintptr(a *uintptr, d uintptr) uintptr { y(); return stdatomic.AddUintptr(a, d) }

func LoadInt32(a *int32) int32                     { y(); return stdatomic.LoadInt32(a) }
func LoadInt64(a *int64) int64                     { y(); return stdatomic.LoadInt64(a) }
func LoadUint32(a *uint32) uint32                  { y(); return stdatomic.LoadUint32(a) }
func LoadUint64(a *uint64) uint64                  { y(); return stdatomic.LoadUint64(a) }
func LoadUintptr(a *uintptr) uintptr               { y(); return stdatomic.LoadUintptr(a) }
func LoadPointer(a *unsafe.Pointer) unsafe.Pointer { y(); return stdatomic.LoadPointer(a) }

func StoreInt32(a *int32, v int32)                     { y(); stdatomic.StoreInt32(a, v) }
func StoreInt64(a *int64, v int64)                     { y(); stdatomic.StoreInt64(a, v) }
func StoreUint32(a *uint32, v uint32)                  { y(); stdatomic.StoreUint32(a, v) }
func StoreUint64(a *uint64, v uint64)                  { y(); stdatomic.StoreUint64(a, v) }
func StoreUintptr(a *uintptr, v uintptr)               { y(); stdatomic.StoreUintptr(a, v) }
func StorePointer(a *unsafe.Pointer, v unsafe.Pointer) { y(); stdatomic.StorePointer(a, v) }

func SwapInt32(a *int32, v int32) int32         { y(); return stdatomic.SwapInt32(a, v) }
func SwapInt64(a *int64, v int64) int64         { y(); return stdatomic.SwapInt64(a, v) }
func SwapUint32(a *uint32, v uint32) uint32     { y(); return stdatomic.SwapUint32(a, v) }
func SwapUint64(a *uint64, v uint64) uint64     { y(); return stdatomic.SwapUint64(a, v) }
func SwapUintptr(a *uintptr, v uintptr) uintptr { y(); return stdatomic.SwapUintptr(a, v) }
func SwapPointer(a *unsafe.Pointer, v unsafe.Pointer) unsafe.Pointer {
	y()
	return stdatomic.SwapPointer(a, v)
}

func CompareAndSwapInt32(a *int32, o, n int32) bool {
	y()
	return stdatomic.CompareAndSwapInt32(a, o, n)
}
func CompareAndSwapInt64(a *int64, o, n int64) bool {
	y()
	return stdatomic.CompareAndSwapInt64(a, o, n)
}
func CompareAndSwapUint32(a *uint32, o, n uint32) bool {
	y()
	return stdatomic.CompareAndSwapUint32(a, o, n)
}
func CompareAndSwapUint64(a *uint64, o, n uint64) bool {
	y()
	return stdatomic.CompareAndSwapUint64(a, o, n)
}
func CompareAndSwapUintptr(a *uintptr, o, n uintptr) bool {
	y()
	return stdatomic.CompareAndSwapUintptr(a, o, n)
}
func CompareAndSwapPointer(a *unsafe.Pointer, o, n unsafe.Pointer) bool {
	y()
	return stdatomic.CompareAndSwapPointer(a, o, n)
}
