package simrt

import (
	"fmt"
	"io"
	"reflect"
	"strings"
	"unsafe"
)

// Address seam: %p in a constant format prints a simulator-assigned token
// instead of the machine address. Tokens are unique per pointer within a run
// (the table keeps the pointee alive, so an address cannot be reused and the
// numbering is a pure function of the tape), and their numeric order is the
// run's choice: ascending, descending or seeded-random.

const maxAddrs = 4096

type addrEnt struct {
	p   unsafe.Pointer
	tok uint64
}

var addrs [maxAddrs]addrEnt
var naddrs int

const addrBase = 0xc000100000

//go:norace
func resetAddrs() {
	for i := 0; i < naddrs; i++ {
		addrs[i] = addrEnt{}
	}
	naddrs = 0
}

//go:norace
func tokenFor(p unsafe.Pointer) uint64 {
	for i := 0; i < naddrs; i++ {
		if addrs[i].p == p {
			return addrs[i].tok
		}
	}
	n := uint64(naddrs)
	// One decision per new pointer: 0 = next ascending slot, v>0 = slot v below
	// the base. Explore mode turns the run's policy into concrete decisions, so
	// a replay needs only the tape.
	v := 0
	if R.active && R.quiet == 0 {
		if !R.tape.S[KAddr].Replay {
			switch R.cfg.AddrPolicy {
			case 1:
				v = int(n) + 1
			case 2:
				v = 1 + int(R.tape.rawRand(KAddr)%0xffff)
			}
		}
		v = R.tape.chooseWith(KAddr, 1<<16, v)
	}
	tok := addrBase + n*0x40
	if v > 0 {
		if R.active {
			R.st.AddrNonAsc++
		}
		tok = addrBase - uint64(v)*0x40
		for clash := true; clash; {
			clash = false
			for i := 0; i < naddrs; i++ {
				if addrs[i].tok == tok {
					tok -= 0x40 << 16
					clash = true
				}
			}
		}
	}
	if naddrs < maxAddrs {
		addrs[naddrs] = addrEnt{p, tok}
		naddrs++
		if R.active {
			R.st.AddrTokens++
		}
	}
	return tok
}

// rewrite replaces every %p verb (no explicit argument indexes) by %s and the
// corresponding pointer-like argument by its token.
func rewrite(format string, args []any) (string, []any) {
	if !strings.Contains(format, "%p") || strings.Contains(format, "[") || strings.Contains(format, "*") {
		return format, args
	}
	var sb strings.Builder
	out := make([]any, len(args))
	copy(out, args)
	ai := 0
	for i := 0; i < len(format); i++ {
		c := format[i]
		if c != '%' {
			sb.WriteByte(c)
			continue
		}
		j := i + 1
		for j < len(format) && strings.IndexByte("+-# 0123456789.", format[j]) >= 0 {
			j++
		}
		if j >= len(format) {
			sb.WriteString(format[i:])
			break
		}
		verb := format[j]
		if verb == '%' {
			sb.WriteString(format[i : j+1])
			i = j
			continue
		}
		if verb == 'p' && ai < len(out) {
			if p, ok := pointerOf(out[ai]); ok {
				sharp := strings.Contains(format[i:j], "#")
				if sharp {
					out[ai] = fmt.Sprintf("%x", tokenFor(p))
				} else {
					out[ai] = fmt.Sprintf("0x%x", tokenFor(p))
				}
				sb.WriteString("%s")
				ai++
				i = j
				continue
			}
		}
		sb.WriteString(format[i : j+1])
		ai++
		i = j
	}
	return sb.String(), out
}

func pointerOf(a any) (unsafe.Pointer, bool) {
	if a == nil {
		return nil, false
	}
	v := reflect.ValueOf(a)
	switch v.Kind() {
	case reflect.Ptr, reflect.UnsafePointer, reflect.Map, reflect.Chan, reflect.Func, reflect.Slice:
		if v.IsNil() {
			return nil, false
		}
		return v.UnsafePointer(), true
	}
	return nil, false
}

func Sprintf(format string, a ...any) string {
	f, b := rewrite(format, a)
	return fmt.Sprintf(f, b...)
}

func Errorf(format string, a ...any) error {
	f, b := rewrite(format, a)
	return fmt.Errorf(f, b...)
}

func Fprintf(w io.Writer, format string, a ...any) (int, error) {
	f, b := rewrite(format, a)
	return fmt.Fprintf(w, f, b...)
}

func Printf(format string, a ...any) (int, error) {
	f, b := rewrite(format, a)
	return fmt.Printf(f, b...)
}

func Appendf(dst []byte, format string, a ...any) []byte {
	f, b := rewrite(format, a)
	return fmt.Appendf(dst, f, b...)
}
