package simrt

import (
	"fmt"
	"reflect"
	"sort"
)

// Keys returns the keys of m in the order the simulator chose for this range
// statement: the canonical (sorted) order permuted by the map stream of the
// tape. Snapshot semantics: entries added during the iteration are not
// visited (one of the behaviours Go allows), deleted ones are skipped by the
// rewritten loop.
func Keys[M ~map[K]V, K comparable, V any](m M) []K {
	kk := make([]K, 0, len(m))
	for k := range m {
		kk = append(kk, k)
	}
	if len(kk) < 2 {
		noteRange(false)
		return kk
	}
	sortKeys(kk)
	moved := false
	if permActive() {
		// Fisher-Yates driven by the tape; decision 0 = leave in place.
		for i := len(kk) - 1; i > 0; i-- {
			j := i - mapChoice(i+1)
			if j != i {
				kk[i], kk[j] = kk[j], kk[i]
				moved = true
			}
		}
	} else {
		mapIdentity(len(kk) - 1)
	}
	noteRange(moved)
	return kk
}

// ZeroKey / ZeroVal give the rewritten loop per-loop variables of the right
// type without simprep having to spell the type.
func ZeroKey[M ~map[K]V, K comparable, V any](M) (z K) { return }
func ZeroVal[M ~map[K]V, K comparable, V any](M) (z V) { return }

//go:norace
func permActive() bool {
	if !R.active || R.quiet != 0 {
		return false
	}
	return R.tape.S[KMap].Replay || R.cfg.MapPerm
}

//go:norace
func mapChoice(n int) int { return R.tape.choose(KMap, n) }

// mapIdentity records n "leave in place" decisions for a range that is not permuted
// in an exploring run: a replay consumes one decision per step at EVERY range (it
// cannot know which operations had the permutation switched on), so the recorded
// stream has to have one for every step too - otherwise the decisions of a later,
// permuted range are applied to an earlier one (met with seeded change c09r, whose
// violation "did not recur alone").
//
//go:norace
func mapIdentity(n int) {
	if !R.active || R.quiet != 0 || R.tape.S[KMap].Replay {
		return
	}
	for i := 0; i < n; i++ {
		R.tape.chooseWith(KMap, 2, 0)
	}
}

//go:norace
func noteRange(moved bool) {
	if !R.active {
		return
	}
	R.st.MapRanges++
	if moved {
		R.st.MapPermFired++
	}
}

func sortKeys[K comparable](kk []K) {
	if len(kk) == 0 {
		return
	}
	switch reflect.ValueOf(kk[0]).Kind() {
	case reflect.String:
		sort.Slice(kk, func(i, j int) bool { return reflect.ValueOf(kk[i]).String() < reflect.ValueOf(kk[j]).String() })
	case reflect.Int, reflect.Int8, reflect.Int16, reflect.Int32, reflect.Int64:
		sort.Slice(kk, func(i, j int) bool { return reflect.ValueOf(kk[i]).Int() < reflect.ValueOf(kk[j]).Int() })
	case reflect.Uint, reflect.Uint8, reflect.Uint16, reflect.Uint32, reflect.Uint64, reflect.Uintptr:
		sort.Slice(kk, func(i, j int) bool { return reflect.ValueOf(kk[i]).Uint() < reflect.ValueOf(kk[j]).Uint() })
	default:
		// Keys whose text contains addresses have no canonical order the
		// simulator can own; counted so the evidence can say so.
		noteUnownedKeys()
		sort.Slice(kk, func(i, j int) bool { return fmt.Sprintf("%#v", kk[i]) < fmt.Sprintf("%#v", kk[j]) })
	}
}

var UnownedKeyRanges int64

//go:norace
func noteUnownedKeys() { UnownedKeyRanges++ }
