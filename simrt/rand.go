package simrt

// Random-source seam: the top-level functions of math/rand and math/rand/v2 (the
// process-wide, randomly seeded source) are answered from a generator the simulator
// seeds - with a constant in the canonical configuration, with a value drawn once
// per run from the fault stream of the tape when the run varies it. A result that
// depends on the global random source then differs from the reference in a way that
// replays from the tape. (Generators the library creates itself with rand.New are
// left alone: their seeds are the library's business - a constant, or the clock,
// which is the simulator's too.)

var randState uint64
var randSeeded bool

//go:norace
func resetRand() { randSeeded = false }

//go:norace
func randNext() uint64 {
	if !randSeeded {
		v := 0
		if R.active && R.quiet == 0 {
			if !R.tape.S[KFault].Replay && R.cfg.RandVary {
				v = 1 + int(R.tape.rawRand(KFault)%0xffff)
			}
			v = R.tape.chooseWith(KFault, 1<<16, v)
		}
		randState = mix(uint64(v) * 0x9e3779b97f4a7c15)
		randSeeded = true
	}
	randState += 0x9e3779b97f4a7c15
	z := randState
	z = (z ^ (z >> 30)) * 0xbf58476d1ce4e5b9
	z = (z ^ (z >> 27)) * 0x94d049bb133111eb
	return z ^ (z >> 31)
}

func RandUint64() uint64   { return randNext() }
func RandUint32() uint32   { return uint32(randNext() >> 32) }
func RandInt63() int64     { return int64(randNext() >> 1) }
func RandInt64() int64     { return int64(randNext() >> 1) }
func RandInt31() int32     { return int32(randNext() >> 33) }
func RandInt32() int32     { return int32(randNext() >> 33) }
func RandInt() int         { return int(uint(randNext()) >> 1) }
func RandFloat64() float64 { return float64(randNext()>>11) / (1 << 53) }
func RandFloat32() float32 { return float32(randNext()>>40) / (1 << 24) }
func RandSeed(int64)       {}

func RandInt63n(n int64) int64 {
	if n <= 0 {
		panic("invalid argument to Int63n")
	}
	return int64(randNext()>>1) % n
}
func RandInt31n(n int32) int32 {
	if n <= 0 {
		panic("invalid argument to Int31n")
	}
	return int32(int64(randNext()>>1) % int64(n))
}
func RandIntn(n int) int {
	if n <= 0 {
		panic("invalid argument to Intn")
	}
	return int(int64(randNext()>>1) % int64(n))
}
func RandPerm(n int) []int {
	p := make([]int, n)
	for i := range p {
		p[i] = i
	}
	RandShuffle(n, func(i, j int) { p[i], p[j] = p[j], p[i] })
	return p
}
func RandShuffle(n int, swap func(i, j int)) {
	for i := n - 1; i > 0; i-- {
		swap(i, RandIntn(i+1))
	}
}

// math/rand/v2 names
func RandIntN(n int) int          { return RandIntn(n) }
func RandInt64N(n int64) int64    { return RandInt63n(n) }
func RandInt32N(n int32) int32    { return RandInt31n(n) }
func RandUint64N(n uint64) uint64 { return randNext() % n }
func RandUint32N(n uint32) uint32 { return uint32(randNext()>>32) % n }
