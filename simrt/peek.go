package simrt

import "unsafe"

// Looking at a channel without operating it: the first words of the runtime's
// channel header (runtime/chan.go, type hchan: qcount uint, dataqsiz uint, buf
// unsafe.Pointer, elemsize uint16, closed uint32 - the same in go1.23 and go1.26).
// Used only for channels the simulator does not own (a context's Done channel) and
// only while the tasks of the simulation, one at a time, are the only ones that
// operate them. init checks the layout against real channels and refuses to run
// otherwise (the harness then exits with a build/self-check failure, never with a
// verdict).

const hchanClosedOff = 2*unsafe.Sizeof(uint(0)) + unsafe.Sizeof(unsafe.Pointer(nil)) + 4

//go:norace
func peekLen(id unsafe.Pointer) int { return int(*(*uint)(id)) }

//go:norace
func peekCap(id unsafe.Pointer) int { return int(*(*uint)(unsafe.Add(id, unsafe.Sizeof(uint(0))))) }

//go:norace
func peekClosed(id unsafe.Pointer) bool { return *(*uint32)(unsafe.Add(id, hchanClosedOff)) != 0 }

func init() {
	bad := func(what string) {
		panic("simrt: the runtime's channel header is not laid out as expected (" + what + "); peek.go needs adapting to this Go version")
	}
	a := make(chan int, 3)
	b := make(chan struct{})
	c := make(chan [5]string, 7)
	if peekLen(chanID(a)) != 0 || peekCap(chanID(a)) != 3 || peekClosed(chanID(a)) {
		bad("fresh buffered channel")
	}
	a <- 1
	a <- 2
	if peekLen(chanID(a)) != 2 || peekClosed(chanID(a)) {
		bad("two buffered values")
	}
	close(a)
	if !peekClosed(chanID(a)) || peekLen(chanID(a)) != 2 {
		bad("closed buffered channel")
	}
	if peekLen(chanID(b)) != 0 || peekCap(chanID(b)) != 0 || peekClosed(chanID(b)) {
		bad("fresh unbuffered channel")
	}
	close(b)
	if !peekClosed(chanID(b)) {
		bad("closed unbuffered channel")
	}
	c <- [5]string{}
	if peekLen(chanID(c)) != 1 || peekCap(chanID(c)) != 7 || peekClosed(chanID(c)) {
		bad("channel of a large element type")
	}
}
