package simrt

import (
	"os"
	"os/exec"
	"strconv"
	"testing"
)

// Unit tests of the simulator's own semantics (run by selftest/run.sh unit, in a
// scratch module, plain and -race). They use the seams directly, the way
// instrumented library code would.

func cfg(seed uint64, pol int) Config {
	return Config{Tape: NewTape(seed), Policy: pol, SwitchPct: 3000, PCTDepth: 3,
		OnFatal: func(v int, d string) { panic("unexpected fatal verdict: " + d) }}
}

func TestRendezvousChannelKeepsOrderUnderAllPolicies(t *testing.T) {
	for seed := uint64(1); seed <= 200; seed++ {
		Begin(cfg(seed, int(seed)%NPolicies))
		ch := make(chan int)
		var got []int
		Run([]func(){
			func() {
				for i := 0; i < 5; i++ {
					ChanSend(ch, i)
				}
				ChanClose(ch)
			},
			func() {
				for {
					v, ok := ChanRecv2(ch)
					if !ok {
						return
					}
					got = append(got, v)
				}
			},
		})
		if len(got) != 5 {
			t.Fatalf("seed %d: got %v", seed, got)
		}
		for i, v := range got {
			if v != i {
				t.Fatalf("seed %d: got %v", seed, got)
			}
		}
	}
}

func TestBufferedChannelBlocksWhenFull(t *testing.T) {
	for seed := uint64(1); seed <= 100; seed++ {
		Begin(cfg(seed, PolRandom))
		ch := make(chan int, 2)
		maxLen := 0
		sum := 0
		Run([]func(){
			func() {
				for i := 1; i <= 10; i++ {
					ChanSend(ch, i)
					st := chanLookup(chanID(ch))
					if n := chanLen(st); n > maxLen {
						maxLen = n
					}
				}
				ChanClose(ch)
			},
			func() {
				for {
					v, ok := ChanRecv2(ch)
					if !ok {
						return
					}
					sum += v
				}
			},
		})
		if sum != 55 || maxLen > 2 {
			t.Fatalf("seed %d: sum=%d maxLen=%d", seed, sum, maxLen)
		}
	}
}

func TestGoAndWaitGroup(t *testing.T) {
	for seed := uint64(1); seed <= 200; seed++ {
		Begin(cfg(seed, int(seed)%NPolicies))
		var mu Mutex
		total := 0
		done := false
		Run([]func(){func() {
			var wg WaitGroup
			wg.Add(6)
			for i := 1; i <= 6; i++ {
				i := i
				Go(func() {
					defer wg.Done()
					mu.Lock()
					total += i
					mu.Unlock()
				})
			}
			wg.Wait()
			mu.Lock()
			done = total == 21
			mu.Unlock()
		}})
		if !done {
			t.Fatalf("seed %d: Wait returned before all spawned tasks were done (total=%d)", seed, total)
		}
		if GetStats().Spawned != 6 {
			t.Fatalf("seed %d: spawned=%d", seed, GetStats().Spawned)
		}
	}
}

// A run that ends in a fatal verdict leaves its tasks parked for good, exactly as
// in a worker (which then exits). So each such scenario runs in a fresh process:
// this test binary re-executed with SIMRT_SCENARIO set; the exit status is the verdict.
func TestHelperScenario(t *testing.T) {
	name := os.Getenv("SIMRT_SCENARIO")
	if name == "" {
		t.Skip("helper for the fatal-verdict tests")
	}
	seed, _ := strconv.ParseUint(os.Getenv("SIMRT_SEED"), 10, 64)
	c := cfg(seed, PolRandom)
	c.OnFatal = func(v int, d string) { os.Exit(40 + v) }
	Begin(c)
	switch name {
	case "lock-order":
		var a, b Mutex
		Run([]func(){
			func() { a.Lock(); b.Lock(); b.Unlock(); a.Unlock() },
			func() { b.Lock(); a.Lock(); a.Unlock(); b.Unlock() },
		})
	case "recursive-rlock":
		var m RWMutex
		Run([]func(){
			func() { m.RLock(); m.RLock(); m.RUnlock(); m.RUnlock() },
			func() { m.Lock(); m.Unlock() },
		})
	case "recv-nobody-sends":
		ch := make(chan int)
		Run([]func(){func() { ChanRecv(ch) }})
	}
	os.Exit(0)
}

func scenarioVerdict(t *testing.T, name string, seed uint64) int {
	cmd := exec.Command(os.Args[0], "-test.run=TestHelperScenario")
	cmd.Env = append(os.Environ(), "SIMRT_SCENARIO="+name, "SIMRT_SEED="+strconv.FormatUint(seed, 10))
	err := cmd.Run()
	if err == nil {
		return VNone
	}
	if ee, ok := err.(*exec.ExitError); ok && ee.ExitCode() >= 40 {
		return ee.ExitCode() - 40
	}
	t.Fatalf("scenario %s seed %d: %v", name, seed, err)
	return -1
}

func TestLockOrderInversionIsFoundAsDeadlock(t *testing.T) {
	found := 0
	for seed := uint64(1); seed <= 40; seed++ {
		switch v := scenarioVerdict(t, "lock-order", seed); v {
		case VDeadlock:
			found++
		case VNone:
		default:
			t.Fatalf("seed %d: verdict %d", seed, v)
		}
	}
	if found == 0 || found == 40 {
		t.Fatalf("lock-order deadlock reached on %d of 40 seeds (expected some, not all)", found)
	}
	t.Logf("deadlock reached on %d of 40 seeds", found)
}

func TestRecursiveReadLockBehindWaitingWriterDeadlocks(t *testing.T) {
	found := 0
	for seed := uint64(1); seed <= 40; seed++ {
		if scenarioVerdict(t, "recursive-rlock", seed) == VDeadlock {
			found++
		}
	}
	if found == 0 || found == 40 {
		t.Fatalf("writer preference: recursive read lock behind a waiting writer deadlocked on %d of 40 seeds (expected some, not all)", found)
	}
}

func TestReceiveWithoutSenderIsADeadlockVerdictNotAHang(t *testing.T) {
	if v := scenarioVerdict(t, "recv-nobody-sends", 1); v != VDeadlock {
		t.Fatalf("verdict %d", v)
	}
}

func TestSameSeedSameExecutionAndReplay(t *testing.T) {
	work := func(ch chan int, p *Pool) []func() {
		return []func(){
			func() {
				for i := 0; i < 4; i++ {
					x := p.Get().(*int)
					*x++
					p.Put(x)
					ChanSend(ch, i)
				}
				ChanClose(ch)
			},
			func() {
				for {
					if _, ok := ChanRecv2(ch); !ok {
						return
					}
					x := p.Get().(*int)
					p.Put(x)
				}
			},
		}
	}
	for seed := uint64(1); seed <= 50; seed++ {
		var hashes [3]uint64
		var tape [NKinds][]uint32
		for rep := 0; rep < 3; rep++ {
			c := cfg(seed, int(seed)%NPolicies)
			c.PoolFreshPct, c.PoolAnyPct, c.PoolDropPct = 20, 40, 10
			if rep == 2 {
				c.Tape = NewReplayTape(tape) // third execution: replay of the recorded decisions
			}
			Begin(c)
			p := &Pool{New: func() any { return new(int) }}
			Run(work(make(chan int, 1), p))
			hashes[rep] = GetStats().EventHash
			if rep == 0 {
				tape = c.Tape.Snapshot()
			}
		}
		if hashes[0] != hashes[1] || hashes[0] != hashes[2] {
			t.Fatalf("seed %d: event-log hashes differ: %x %x %x (explore, explore, replay)", seed, hashes[0], hashes[1], hashes[2])
		}
	}
}

func TestKeysCanonicalAndPermuted(t *testing.T) {
	m := map[string]int{"b": 2, "a": 1, "c": 3, "d": 4}
	// inactive: canonical sorted order
	k := Keys(m)
	if len(k) != 4 || k[0] != "a" || k[3] != "d" {
		t.Fatalf("canonical order: %v", k)
	}
	moved := 0
	for seed := uint64(1); seed <= 30; seed++ {
		c := cfg(seed, PolRandom)
		c.MapPerm = true
		Begin(c)
		var got []string
		Run([]func(){func() { got = Keys(m) }})
		if len(got) != 4 {
			t.Fatalf("keys lost: %v", got)
		}
		if got[0] != "a" || got[1] != "b" || got[2] != "c" {
			moved++
		}
	}
	if moved == 0 {
		t.Fatalf("map permutation never fired")
	}
}

func TestMapSemanticsAndOwnedRangeOrder(t *testing.T) {
	// outside the simulator: plain sync.Map semantics, insertion-ordered Range
	var m Map
	if _, ok := m.Load("a"); ok {
		t.Fatal("empty map has a")
	}
	m.Store("b", 2)
	m.Store("a", 1)
	if v, loaded := m.LoadOrStore("a", 9); !loaded || v.(int) != 1 {
		t.Fatalf("LoadOrStore existing: %v %v", v, loaded)
	}
	if v, loaded := m.LoadOrStore("c", 3); loaded || v.(int) != 3 {
		t.Fatalf("LoadOrStore new: %v %v", v, loaded)
	}
	m.Delete("b")
	m.Store("b", 22)
	var got []string
	m.Range(func(k, v any) bool { got = append(got, k.(string)); return true })
	if len(got) != 3 || got[0] != "a" || got[1] != "c" || got[2] != "b" {
		t.Fatalf("Range order outside the simulator: %v", got)
	}
	if v, ok := m.LoadAndDelete("c"); !ok || v.(int) != 3 {
		t.Fatal("LoadAndDelete")
	}
	if !m.CompareAndSwap("a", 1, 11) || m.CompareAndSwap("a", 1, 12) {
		t.Fatal("CompareAndSwap")
	}
	if m.CompareAndDelete("a", 1) || !m.CompareAndDelete("a", 11) {
		t.Fatal("CompareAndDelete")
	}
	m.Clear()
	n := 0
	m.Range(func(k, v any) bool { n++; return true })
	if n != 0 {
		t.Fatal("Clear")
	}
	// inside the simulator: the Range order is a function of the tape, and a
	// check-then-act on the map can be interleaved
	orders := map[string]bool{}
	lost := 0
	scenario := func(c Config) (string, int) {
		Begin(c)
		var mm Map
		order := ""
		var hit [2]int // one counter per task: the scenario itself is race-free
		inc := func(t int) {
			if _, ok := mm.Load("once"); !ok { // check …
				mm.Store("once", true) // … then act: both tasks may get here
				hit[t]++
			}
		}
		Run([]func(){
			func() {
				for _, k := range []string{"x", "y", "z"} {
					mm.Store(k, 0)
				}
				inc(0)
				mm.Range(func(k, v any) bool {
					if k != "once" {
						order += k.(string)
					}
					return true
				})
			},
			func() { inc(1) },
		})
		return order, hit[0] + hit[1]
	}
	for seed := uint64(1); seed <= 300; seed++ {
		c := cfg(seed, PolRandom)
		c.MapPerm = true
		order, hits := scenario(c)
		orders[order] = true
		if hits == 2 {
			lost++
		}
		r := cfg(seed, PolRandom)
		r.Tape = NewReplayTape(c.Tape.Snapshot())
		o2, h2 := scenario(r)
		if o2 != order || h2 != hits {
			t.Fatalf("seed %d: replay gives (%q,%d), exploration gave (%q,%d)", seed, o2, h2, order, hits)
		}
	}
	if len(orders) < 4 {
		t.Fatalf("Range order is not varied by the map-order stream: %v", orders)
	}
	if lost == 0 {
		t.Fatal("the window between Load and Store of a check-then-act was never entered")
	}
}

func TestCondProducerConsumer(t *testing.T) {
	for seed := uint64(1); seed <= 200; seed++ {
		Begin(cfg(seed, int(seed)%NPolicies))
		var mu Mutex
		c := NewCond(&mu)
		queue := 0
		got := 0
		consumer := func() {
			for i := 0; i < 3; i++ {
				mu.Lock()
				for queue == 0 {
					c.Wait()
				}
				queue--
				got++
				mu.Unlock()
			}
		}
		Run([]func(){
			consumer,
			consumer,
			func() {
				for i := 0; i < 6; i++ {
					mu.Lock()
					queue++
					mu.Unlock()
					if i%2 == 0 {
						c.Signal()
					} else {
						c.Broadcast()
					}
				}
			},
		})
		if got != 6 || queue != 0 {
			t.Fatalf("seed %d: got %d, queue %d", seed, got, queue)
		}
	}
}

func TestSelectClausesDefaultAndParking(t *testing.T) {
	for seed := uint64(1); seed <= 300; seed++ {
		Begin(cfg(seed, int(seed)%NPolicies))
		data := make(chan int)   // rendezvous
		buf := make(chan int, 2) // buffered
		done := make(chan struct{})
		var got, polled, viaBuf int
		Run([]func(){
			func() { // producer: offers each number on either channel
				for i := 1; i <= 6; i++ {
					c0, c1, v := data, buf, i
					switch SelectReady(false, SendCase(c0), SendCase(c1)) {
					case 0:
						ChanSendNow(c0, v)
					case 1:
						ChanSendNow(c1, v)
					}
				}
				ChanClose(done)
			},
			func() { // consumer: takes from both until done and both drained
				for {
					c0, c1, c2 := data, buf, done
					switch SelectReady(false, RecvCase(c0), RecvCase(c1), RecvCase(c2)) {
					case 0:
						got += ChanRecvNow(c0)
					case 1:
						got += ChanRecvNow(c1)
						viaBuf++
					case 2:
						// drain what is still buffered, without blocking
						for {
							if SelectReady(true, RecvCase(c1)) == 0 {
								got += ChanRecvNow(c1)
								viaBuf++
								continue
							}
							polled++
							return
						}
					}
				}
			},
		})
		if got != 21 {
			t.Fatalf("seed %d: sum %d (via buffer %d)", seed, got, viaBuf)
		}
		if polled != 1 {
			t.Fatalf("seed %d: default clause taken %d times", seed, polled)
		}
	}
}
