package simrt

import (
	"context"
	"os"
	"os/exec"
	"strconv"
	"sync/atomic"
	"testing"
	"time"
)

// Unit tests of the simulator's own semantics (run by selftest/run.sh unit, in a
// scratch module, plain and -race). They use the seams directly, the way
// instrumented library code would.

func cfg(seed uint64, pol int) Config {
	permChans = permChans[:0] // the tests make their channels between Begin and Run
	return Config{Tape: NewTape(seed), Policy: pol, SwitchPct: 3000, PCTDepth: 3,
		OnFatal: func(v int, d string) { panic("unexpected fatal verdict: " + d) }}
}

func TestRendezvousChannelKeepsOrderUnderAllPolicies(t *testing.T) {
	for seed := uint64(1); seed <= 200; seed++ {
		Begin(cfg(seed, int(seed)%NPolicies))
		ch := RegChan(make(chan int))
		var got []int
		Run([]func(){
			func() {
				for i := 0; i < 5; i++ {
					ChanSend(ch, i)
				}
				ChanClose(ch)
			},
			func() {
				for {
					v, ok := ChanRecv2(ch)
					if !ok {
						return
					}
					got = append(got, v)
				}
			},
		})
		if len(got) != 5 {
			t.Fatalf("seed %d: got %v", seed, got)
		}
		for i, v := range got {
			if v != i {
				t.Fatalf("seed %d: got %v", seed, got)
			}
		}
	}
}

func TestBufferedChannelBlocksWhenFull(t *testing.T) {
	for seed := uint64(1); seed <= 100; seed++ {
		Begin(cfg(seed, PolRandom))
		ch := RegChan(make(chan int, 2))
		maxLen := 0
		sum := 0
		Run([]func(){
			func() {
				for i := 1; i <= 10; i++ {
					ChanSend(ch, i)
					st := chanLookup(chanID(ch))
					if n := chanLen(st); n > maxLen {
						maxLen = n
					}
				}
				ChanClose(ch)
			},
			func() {
				for {
					v, ok := ChanRecv2(ch)
					if !ok {
						return
					}
					sum += v
				}
			},
		})
		if sum != 55 || maxLen > 2 {
			t.Fatalf("seed %d: sum=%d maxLen=%d", seed, sum, maxLen)
		}
	}
}

func TestGoAndWaitGroup(t *testing.T) {
	for seed := uint64(1); seed <= 200; seed++ {
		Begin(cfg(seed, int(seed)%NPolicies))
		var mu Mutex
		total := 0
		done := false
		Run([]func(){func() {
			var wg WaitGroup
			wg.Add(6)
			for i := 1; i <= 6; i++ {
				i := i
				Go(func() {
					defer wg.Done()
					mu.Lock()
					total += i
					mu.Unlock()
				})
			}
			wg.Wait()
			mu.Lock()
			done = total == 21
			mu.Unlock()
		}})
		if !done {
			t.Fatalf("seed %d: Wait returned before all spawned tasks were done (total=%d)", seed, total)
		}
		if GetStats().Spawned != 6 {
			t.Fatalf("seed %d: spawned=%d", seed, GetStats().Spawned)
		}
	}
}

// A run that ends in a fatal verdict leaves its tasks parked for good, exactly as
// in a worker (which then exits). So each such scenario runs in a fresh process:
// this test binary re-executed with SIMRT_SCENARIO set; the exit status is the verdict.
func TestHelperScenario(t *testing.T) {
	name := os.Getenv("SIMRT_SCENARIO")
	if name == "" {
		t.Skip("helper for the fatal-verdict tests")
	}
	seed, _ := strconv.ParseUint(os.Getenv("SIMRT_SEED"), 10, 64)
	c := cfg(seed, PolRandom)
	c.OnFatal = func(v int, d string) { os.Exit(40 + v) }
	Begin(c)
	switch name {
	case "lock-order":
		var a, b Mutex
		Run([]func(){
			func() { a.Lock(); b.Lock(); b.Unlock(); a.Unlock() },
			func() { b.Lock(); a.Lock(); a.Unlock(); b.Unlock() },
		})
	case "recursive-rlock":
		var m RWMutex
		Run([]func(){
			func() { m.RLock(); m.RLock(); m.RUnlock(); m.RUnlock() },
			func() { m.Lock(); m.Unlock() },
		})
	case "recv-nobody-sends":
		ch := RegChan(make(chan int))
		Run([]func(){func() { ChanRecv(ch) }})
	case "ctx-nobody-cancels":
		ctx, cancel := context.WithCancel(context.Background())
		defer cancel()
		Run([]func(){func() { ChanRecv(ctx.Done()) }, func() { Yield(YAtomic, 0) }})
	case "user-waits-for-leaked-worker":
		ch := RegChan(make(chan int))
		Run([]func(){func() {
			Go(func() {
				tk := TimeNewTicker(time.Second)
				for {
					ChanRecv(tk.C)
				}
			})
			ChanRecv(ch) // a call that never returns is a verdict, janitor or not
		}})
	case "ticker-only":
		ch := RegChan(make(chan int))
		Run([]func(){func() {
			tk := TimeNewTicker(time.Second)
			defer tk.Stop()
			_ = tk
			ChanRecv(ch) // the ticker keeps time moving, nobody ever sends
		}})
	}
	os.Exit(0)
}

func scenarioVerdict(t *testing.T, name string, seed uint64) int {
	cmd := exec.Command(os.Args[0], "-test.run=TestHelperScenario")
	cmd.Env = append(os.Environ(), "SIMRT_SCENARIO="+name, "SIMRT_SEED="+strconv.FormatUint(seed, 10))
	err := cmd.Run()
	if err == nil {
		return VNone
	}
	if ee, ok := err.(*exec.ExitError); ok && ee.ExitCode() >= 40 {
		return ee.ExitCode() - 40
	}
	t.Fatalf("scenario %s seed %d: %v", name, seed, err)
	return -1
}

func TestLockOrderInversionIsFoundAsDeadlock(t *testing.T) {
	found := 0
	for seed := uint64(1); seed <= 40; seed++ {
		switch v := scenarioVerdict(t, "lock-order", seed); v {
		case VDeadlock:
			found++
		case VNone:
		default:
			t.Fatalf("seed %d: verdict %d", seed, v)
		}
	}
	if found == 0 || found == 40 {
		t.Fatalf("lock-order deadlock reached on %d of 40 seeds (expected some, not all)", found)
	}
	t.Logf("deadlock reached on %d of 40 seeds", found)
}

func TestRecursiveReadLockBehindWaitingWriterDeadlocks(t *testing.T) {
	found := 0
	for seed := uint64(1); seed <= 40; seed++ {
		if scenarioVerdict(t, "recursive-rlock", seed) == VDeadlock {
			found++
		}
	}
	if found == 0 || found == 40 {
		t.Fatalf("writer preference: recursive read lock behind a waiting writer deadlocked on %d of 40 seeds (expected some, not all)", found)
	}
}

func TestReceiveWithoutSenderIsADeadlockVerdictNotAHang(t *testing.T) {
	if v := scenarioVerdict(t, "recv-nobody-sends", 1); v != VDeadlock {
		t.Fatalf("verdict %d", v)
	}
}

func TestSameSeedSameExecutionAndReplay(t *testing.T) {
	work := func(ch chan int, p *Pool) []func() {
		return []func(){
			func() {
				for i := 0; i < 4; i++ {
					x := p.Get().(*int)
					*x++
					p.Put(x)
					ChanSend(ch, i)
				}
				ChanClose(ch)
			},
			func() {
				for {
					if _, ok := ChanRecv2(ch); !ok {
						return
					}
					x := p.Get().(*int)
					p.Put(x)
				}
			},
		}
	}
	for seed := uint64(1); seed <= 50; seed++ {
		var hashes [3]uint64
		var tape [NKinds][]uint32
		for rep := 0; rep < 3; rep++ {
			c := cfg(seed, int(seed)%NPolicies)
			c.PoolFreshPct, c.PoolAnyPct, c.PoolDropPct = 20, 40, 10
			if rep == 2 {
				c.Tape = NewReplayTape(tape) // third execution: replay of the recorded decisions
			}
			Begin(c)
			p := &Pool{New: func() any { return new(int) }}
			Run(work(RegChan(make(chan int, 1)), p))
			hashes[rep] = GetStats().EventHash
			if rep == 0 {
				tape = c.Tape.Snapshot()
			}
		}
		if hashes[0] != hashes[1] || hashes[0] != hashes[2] {
			t.Fatalf("seed %d: event-log hashes differ: %x %x %x (explore, explore, replay)", seed, hashes[0], hashes[1], hashes[2])
		}
	}
}

func TestKeysCanonicalAndPermuted(t *testing.T) {
	m := map[string]int{"b": 2, "a": 1, "c": 3, "d": 4}
	// inactive: canonical sorted order
	k := Keys(m)
	if len(k) != 4 || k[0] != "a" || k[3] != "d" {
		t.Fatalf("canonical order: %v", k)
	}
	moved := 0
	for seed := uint64(1); seed <= 30; seed++ {
		c := cfg(seed, PolRandom)
		c.MapPerm = true
		Begin(c)
		var got []string
		Run([]func(){func() { got = Keys(m) }})
		if len(got) != 4 {
			t.Fatalf("keys lost: %v", got)
		}
		if got[0] != "a" || got[1] != "b" || got[2] != "c" {
			moved++
		}
	}
	if moved == 0 {
		t.Fatalf("map permutation never fired")
	}
}

func TestMapSemanticsAndOwnedRangeOrder(t *testing.T) {
	// outside the simulator: plain sync.Map semantics, insertion-ordered Range
	var m Map
	if _, ok := m.Load("a"); ok {
		t.Fatal("empty map has a")
	}
	m.Store("b", 2)
	m.Store("a", 1)
	if v, loaded := m.LoadOrStore("a", 9); !loaded || v.(int) != 1 {
		t.Fatalf("LoadOrStore existing: %v %v", v, loaded)
	}
	if v, loaded := m.LoadOrStore("c", 3); loaded || v.(int) != 3 {
		t.Fatalf("LoadOrStore new: %v %v", v, loaded)
	}
	m.Delete("b")
	m.Store("b", 22)
	var got []string
	m.Range(func(k, v any) bool { got = append(got, k.(string)); return true })
	if len(got) != 3 || got[0] != "a" || got[1] != "c" || got[2] != "b" {
		t.Fatalf("Range order outside the simulator: %v", got)
	}
	if v, ok := m.LoadAndDelete("c"); !ok || v.(int) != 3 {
		t.Fatal("LoadAndDelete")
	}
	if !m.CompareAndSwap("a", 1, 11) || m.CompareAndSwap("a", 1, 12) {
		t.Fatal("CompareAndSwap")
	}
	if m.CompareAndDelete("a", 1) || !m.CompareAndDelete("a", 11) {
		t.Fatal("CompareAndDelete")
	}
	m.Clear()
	n := 0
	m.Range(func(k, v any) bool { n++; return true })
	if n != 0 {
		t.Fatal("Clear")
	}
	// inside the simulator: the Range order is a function of the tape, and a
	// check-then-act on the map can be interleaved
	orders := map[string]bool{}
	lost := 0
	scenario := func(c Config) (string, int) {
		Begin(c)
		var mm Map
		order := ""
		var hit [2]int // one counter per task: the scenario itself is race-free
		inc := func(t int) {
			if _, ok := mm.Load("once"); !ok { // check …
				mm.Store("once", true) // … then act: both tasks may get here
				hit[t]++
			}
		}
		Run([]func(){
			func() {
				for _, k := range []string{"x", "y", "z"} {
					mm.Store(k, 0)
				}
				inc(0)
				mm.Range(func(k, v any) bool {
					if k != "once" {
						order += k.(string)
					}
					return true
				})
			},
			func() { inc(1) },
		})
		return order, hit[0] + hit[1]
	}
	for seed := uint64(1); seed <= 300; seed++ {
		c := cfg(seed, PolRandom)
		c.MapPerm = true
		order, hits := scenario(c)
		orders[order] = true
		if hits == 2 {
			lost++
		}
		r := cfg(seed, PolRandom)
		r.Tape = NewReplayTape(c.Tape.Snapshot())
		o2, h2 := scenario(r)
		if o2 != order || h2 != hits {
			t.Fatalf("seed %d: replay gives (%q,%d), exploration gave (%q,%d)", seed, o2, h2, order, hits)
		}
	}
	if len(orders) < 4 {
		t.Fatalf("Range order is not varied by the map-order stream: %v", orders)
	}
	if lost == 0 {
		t.Fatal("the window between Load and Store of a check-then-act was never entered")
	}
}

func TestCondProducerConsumer(t *testing.T) {
	for seed := uint64(1); seed <= 200; seed++ {
		Begin(cfg(seed, int(seed)%NPolicies))
		var mu Mutex
		c := NewCond(&mu)
		queue := 0
		got := 0
		consumer := func() {
			for i := 0; i < 3; i++ {
				mu.Lock()
				for queue == 0 {
					c.Wait()
				}
				queue--
				got++
				mu.Unlock()
			}
		}
		Run([]func(){
			consumer,
			consumer,
			func() {
				for i := 0; i < 6; i++ {
					mu.Lock()
					queue++
					mu.Unlock()
					if i%2 == 0 {
						c.Signal()
					} else {
						c.Broadcast()
					}
				}
			},
		})
		if got != 6 || queue != 0 {
			t.Fatalf("seed %d: got %d, queue %d", seed, got, queue)
		}
	}
}

func TestSelectClausesDefaultAndParking(t *testing.T) {
	for seed := uint64(1); seed <= 300; seed++ {
		Begin(cfg(seed, int(seed)%NPolicies))
		data := RegChan(make(chan int))   // rendezvous
		buf := RegChan(make(chan int, 2)) // buffered
		done := RegChan(make(chan struct{}))
		var got, polled, viaBuf int
		Run([]func(){
			func() { // producer: offers each number on either channel
				for i := 1; i <= 6; i++ {
					c0, c1, v := data, buf, i
					switch SelectReady(false, SendCase(c0), SendCase(c1)) {
					case 0:
						ChanSendNow(c0, v)
					case 1:
						ChanSendNow(c1, v)
					}
				}
				ChanClose(done)
			},
			func() { // consumer: takes from both until done and both drained
				for {
					c0, c1, c2 := data, buf, done
					switch SelectReady(false, RecvCase(c0), RecvCase(c1), RecvCase(c2)) {
					case 0:
						got += ChanRecvNow(c0)
					case 1:
						got += ChanRecvNow(c1)
						viaBuf++
					case 2:
						// drain what is still buffered, without blocking
						for {
							if SelectReady(true, RecvCase(c1)) == 0 {
								got += ChanRecvNow(c1)
								viaBuf++
								continue
							}
							polled++
							return
						}
					}
				}
			},
		})
		if got != 21 {
			t.Fatalf("seed %d: sum %d (via buffer %d)", seed, got, viaBuf)
		}
		if polled != 1 {
			t.Fatalf("seed %d: default clause taken %d times", seed, polled)
		}
	}
}

func TestForeignChannelNobodyClosesIsADeadlockVerdict(t *testing.T) {
	if v := scenarioVerdict(t, "ctx-nobody-cancels", 1); v != VDeadlock {
		t.Fatalf("verdict %d", v)
	}
	if v := scenarioVerdict(t, "ticker-only", 1); v != VDeadlock {
		t.Fatalf("ticker: verdict %d", v)
	}
	if v := scenarioVerdict(t, "user-waits-for-leaked-worker", 1); v != VDeadlock && v != VStepCap { // the ticking janitor makes it "never ends" rather than "nobody can run"
		t.Fatalf("user task blocked next to a janitor: verdict %d", v)
	}
}

func TestTimerFiresWhenEverybodyWaits(t *testing.T) {
	for seed := uint64(1); seed <= 100; seed++ {
		Begin(cfg(seed, int(seed)%NPolicies))
		var at [3]time.Time
		start := TimeNow()
		Run([]func(){
			func() { at[0] = ChanRecv(TimeAfter(time.Minute)) },
			func() { at[1] = ChanRecv(TimeAfter(time.Second)) },
			func() {
				tm := TimeNewTimer(time.Hour)
				if !tm.Reset(30 * time.Second) {
					t.Errorf("Reset of a pending timer reports false")
				}
				at[2] = ChanRecv(tm.C)
				if tm.Stop() {
					t.Errorf("Stop of a fired timer reports true")
				}
			},
		})
		st := GetStats()
		if st.TimerFires != 3 || st.TimerJumps == 0 {
			t.Fatalf("seed %d: fires %d jumps %d", seed, st.TimerFires, st.TimerJumps)
		}
		if !(at[1].Before(at[2]) && at[2].Before(at[0])) {
			t.Fatalf("seed %d: order %v", seed, at)
		}
		if d := at[0].Sub(start); d < time.Minute || d > time.Minute+time.Second {
			t.Fatalf("seed %d: the minute timer fired after %v", seed, d)
		}
	}
}

func TestSelectTimeoutLosesToAResultAndWinsWithoutOne(t *testing.T) {
	for seed := uint64(1); seed <= 300; seed++ {
		for _, answer := range []bool{true, false} {
			Begin(cfg(seed, int(seed)%NPolicies))
			res := RegChan(make(chan int, 1))
			quit := RegChan(make(chan struct{}))
			var got string
			Run([]func(){
				func() {
					tm := TimeAfter(time.Hour)
					switch SelectReady(false, RecvCase(res), RecvCase(tm)) {
					case 0:
						ChanRecvNow(res)
						got = "result"
					case 1:
						ChanRecvNow(tm)
						got = "timeout"
					}
					ChanClose(quit)
				},
				func() {
					for i := 0; i < 20; i++ {
						Yield(YAtomic, 0)
					}
					if answer {
						ChanSend(res, 1)
					}
					ChanRecv(quit)
				},
			})
			if want := map[bool]string{true: "result", false: "timeout"}[answer]; got != want {
				t.Fatalf("seed %d: got %s, want %s", seed, got, want)
			}
		}
	}
}

func TestAfterFuncRunsAsATaskAndStopPreventsIt(t *testing.T) {
	for seed := uint64(1); seed <= 100; seed++ {
		Begin(cfg(seed, int(seed)%NPolicies))
		done := RegChan(make(chan struct{}))
		ran, stopped := 0, 0
		Run([]func(){func() {
			TimeAfterFunc(time.Second, func() { ran++; ChanClose(done) })
			s := TimeAfterFunc(time.Millisecond, func() { stopped++ })
			if !s.Stop() {
				t.Errorf("Stop of a pending timer reports false")
			}
			ChanRecv(done)
		}})
		if ran != 1 || stopped != 0 {
			t.Fatalf("seed %d: ran %d stopped %d", seed, ran, stopped)
		}
	}
}

func TestSleepMakesTimersDue(t *testing.T) {
	Begin(cfg(1, PolRandom))
	fired := false
	Run([]func(){func() {
		tm := TimeAfter(time.Second)
		TimeSleep(2 * time.Second)
		if SelectReady(true, RecvCase(tm)) == 0 {
			ChanRecvNow(tm)
			fired = true
		}
	}})
	if !fired || GetStats().TimerJumps != 0 {
		t.Fatalf("fired %v jumps %d", fired, GetStats().TimerJumps)
	}
}

func TestContextCancelReleasesAReceiverUnderAllPolicies(t *testing.T) {
	for seed := uint64(1); seed <= 300; seed++ {
		Begin(cfg(seed, int(seed)%NPolicies))
		ctx, cancel := context.WithCancel(context.Background())
		done := RegChan(make(chan struct{}))
		work := RegChan(make(chan int))
		sum := 0
		Run([]func(){func() {
			Go(func() { // a worker in the usual shape: work or cancellation
				defer ChanClose(done)
				for {
					c0, c1 := ctx.Done(), work
					switch SelectReady(false, RecvCase(c0), RecvCase(c1)) {
					case 0:
						ChanRecvNow(c0)
						return
					case 1:
						sum += ChanRecvNow(c1)
					}
				}
			})
			for i := 1; i <= 4; i++ {
				ChanSend(work, i)
			}
			cancel()
			ChanRecv(done)
		}})
		if sum != 10 {
			t.Fatalf("seed %d: sum %d", seed, sum)
		}
		if ctx.Err() != context.Canceled {
			t.Fatalf("seed %d: %v", seed, ctx.Err())
		}
	}
}

func TestContextTimeoutIsASimulatedTimer(t *testing.T) {
	for seed := uint64(1); seed <= 100; seed++ {
		Begin(cfg(seed, int(seed)%NPolicies))
		var err1, err2 error
		var dl time.Time
		var start time.Time
		Run([]func(){
			func() {
				start = TimeNow()
				ctx, cancel := CtxWithTimeout(context.Background(), time.Minute)
				defer cancel()
				dl, _ = ctx.Deadline()
				ChanRecv(ctx.Done())
				err1 = ctx.Err()
			},
			func() {
				ctx, cancel := CtxWithTimeout(context.Background(), time.Hour)
				cancel() // cancelled long before the deadline
				ChanRecv(ctx.Done())
				err2 = ctx.Err()
			},
		})
		if err1 != context.DeadlineExceeded || err2 != context.Canceled {
			t.Fatalf("seed %d: %v / %v", seed, err1, err2)
		}
		if d := dl.Sub(start); d < time.Minute || d > time.Minute+time.Second {
			t.Fatalf("seed %d: deadline %v after the start", seed, d)
		}
		if GetStats().TimerFires != 1 {
			t.Fatalf("seed %d: %d timers fired (the cancelled one must not)", seed, GetStats().TimerFires)
		}
	}
}

func TestTimersAndPollingReplay(t *testing.T) {
	var ticks int
	scenario := func() []func() {
		return []func(){func() {
			ctx, cancel := CtxWithTimeout(context.Background(), 3*time.Second+time.Millisecond)
			tick := RegChan(make(chan int, 1))
			fin := RegChan(make(chan struct{}))
			ticks = 0
			Go(func() {
				defer ChanClose(fin)
				defer cancel()
				for {
					if _, ok := ChanRecv2(tick); !ok {
						return
					}
					ticks++
					TimeNow()
				}
			})
			tk := TimeNewTicker(time.Second)
			defer tk.Stop()
			for i := 0; ; i++ {
				c0, c1 := ctx.Done(), tk.C
				switch SelectReady(false, RecvCase(c0), RecvCase(c1)) {
				case 0:
					ChanRecvNow(c0)
					ChanClose(tick)
					ChanRecv(fin)
					return
				case 1:
					ChanRecvNow(c1)
					if SelectReady(true, SendCase(tick)) == 0 {
						ChanSendNow(tick, i)
					}
				}
			}
		}}
	}
	for seed := uint64(1); seed <= 60; seed++ {
		c := cfg(seed, int(seed)%NPolicies)
		c.ClockVaryPct = 30
		Begin(c)
		Run(scenario())
		h1, n1, tape := GetStats().EventHash, ticks, c.Tape.Snapshot()
		if n1 > 6 { // a clock jump may make the ticker and the deadline due together; select then chooses
			t.Fatalf("seed %d: %d ticks within three seconds", seed, n1)
		}
		c2 := cfg(seed, PolRandom)
		c2.Tape = NewReplayTape(tape)
		Begin(c2)
		Run(scenario())
		if h2 := GetStats().EventHash; h1 != h2 || ticks != n1 {
			t.Fatalf("seed %d: replay diverged", seed)
		}
	}
}

// A worker that answers and exits must release the waiting selector at once: time
// may only jump when truly nobody can run (met while building: the worker's last
// step was not counted as progress, the pollers looked past it and a ticker fired).
func TestNoTimeJumpWhileSomebodyCanRun(t *testing.T) {
	for seed := uint64(1); seed <= 400; seed++ {
		Begin(cfg(seed, int(seed)%NPolicies))
		beats := 0
		Run([]func(){func() {
			ctx, cancel := CtxWithTimeout(context.Background(), time.Hour)
			defer cancel()
			Go(func() { // heartbeat
				tk := TimeNewTicker(time.Second)
				defer tk.Stop()
				for {
					c0, c1 := ctx.Done(), tk.C
					switch SelectReady(false, RecvCase(c0), RecvCase(c1)) {
					case 0:
						ChanRecvNow(c0)
						return
					case 1:
						ChanRecvNow(c1)
						beats++
					}
				}
			})
			done := RegChan(make(chan int, 1))
			Go(func() {
				for i := 0; i < int(seed%7); i++ {
					Yield(YAtomic, 0)
				}
				ChanSend(done, 1)
			})
			c0, c1 := done, ctx.Done()
			switch SelectReady(false, RecvCase(c0), RecvCase(c1)) {
			case 0:
				ChanRecvNow(c0)
			case 1:
				t.Errorf("seed %d: timed out", seed)
			}
		}})
		if st := GetStats(); st.TimerJumps != 0 || st.TimerFires != 0 || beats != 0 {
			t.Fatalf("seed %d: jumps %d fires %d beats %d", seed, st.TimerJumps, st.TimerFires, beats)
		}
	}
}

func TestChanLenOfOwnedAndForeignChannels(t *testing.T) {
	Begin(cfg(1, PolRandom))
	Run([]func(){func() {
		b := RegChan(make(chan int, 3))
		ChanSend(b, 1)
		ChanSend(b, 2)
		if ChanLen(b) != 2 || cap(b) != 3 {
			t.Errorf("owned: len %d cap %d", ChanLen(b), cap(b))
		}
		ChanRecv(b)
		if ChanLen(b) != 1 {
			t.Errorf("owned after a receive: len %d", ChanLen(b))
		}
		f := make(chan int, 2) // not the simulator's
		ChanSend(f, 7)
		if ChanLen(f) != 1 || ChanRecv(f) != 7 || ChanLen(f) != 0 {
			t.Errorf("foreign channel")
		}
		var nilch chan int
		if ChanLen(nilch) != 0 {
			t.Errorf("nil channel")
		}
	}})
}

// Spin-waits that end under Go's (eventually fair) scheduler end under every policy:
// Gosched and Sleep give way, and no policy keeps one task running for ever.
func TestSpinWaitsTerminateUnderEveryPolicy(t *testing.T) {
	for seed := uint64(1); seed <= 24; seed++ {
		for pol := 0; pol < NPolicies; pol++ {
			for kind := 0; kind < 3; kind++ {
				c := cfg(seed, pol)
				c.SwitchPct = 0 // a sticky policy that never switches of its own accord
				c.PCTDepth = 0  // and PCT without change points
				Begin(c)
				var flag uint32
				spin := func() {
					for atomic.LoadUint32(&flag) == 0 {
						switch kind {
						case 0:
							Yield(YAtomic, 0) // a bare spin on an atomic
						case 1:
							Gosched()
						case 2:
							TimeSleep(time.Millisecond)
						}
					}
				}
				set := func() {
					for i := 0; i < 50; i++ {
						Yield(YAtomic, 0)
					}
					atomic.StoreUint32(&flag, 1)
				}
				Run([]func(){spin, set, spin})
			}
		}
	}
}

// A run is over when the harness's tasks have finished and the library's own tasks
// cannot take a step: a janitor with a ticker does not keep it alive (nor is it a
// deadlock), and what timers set in motion for the near future happens first.
func TestJanitorIsAbandonedAndDelayedEffectsShow(t *testing.T) {
	for seed := uint64(1); seed <= 100; seed++ {
		Begin(cfg(seed, int(seed)%NPolicies))
		sweeps := 0
		buf := []byte("abc")
		stuck := RegChan(make(chan int))
		Run([]func(){func() {
			Go(func() { // janitor, never stopped
				tk := TimeNewTicker(time.Second)
				for {
					ChanRecv(tk.C)
					sweeps++
				}
			})
			Go(func() { ChanRecv(stuck) }) // a leaked worker, waits for work for ever
			TimeAfterFunc(5*time.Second, func() { buf[0] = 'X' })
			TimeAfterFunc(3*time.Hour, func() { buf[1] = 'Y' }) // beyond the horizon
		}})
		st := GetStats()
		if st.Abandoned != 2 {
			t.Fatalf("seed %d: %d tasks abandoned", seed, st.Abandoned)
		}
		if string(buf) != "Xbc" {
			t.Fatalf("seed %d: buf %q", seed, buf)
		}
		if sweeps < 5 || sweeps > 256 {
			t.Fatalf("seed %d: %d sweeps", seed, sweeps)
		}
		// the next phase of the same run works, and time goes on from where it was
		ok := false
		Run([]func(){func() { ChanRecv(TimeAfter(time.Minute)); ok = true }})
		if !ok {
			t.Fatalf("seed %d: second phase", seed)
		}
	}
}
