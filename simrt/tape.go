// Package simrt is the simulation runtime that the instrumented scratch copy of
// the library is linked against (see /verif/DESIGN.md §2.2).
//
// Everything a run decides — schedule, pool behaviour, map iteration order,
// address numbering, fault placement — is drawn from a *choice tape*: in explore
// mode the tape is produced by a splitmix64 stream per decision kind and
// recorded, in replay mode it is read back. Reading past the end of a (shrunk)
// tape yields 0, which always means "the simplest thing": don't switch, LIFO
// pool item, identity permutation, ascending addresses, no fault.
//
// All state in this file is touched from whichever task goroutine holds the
// baton; the functions are //go:norace and avoid runtime helpers that are
// themselves race-instrumented (maps, copy, growing append), otherwise the race
// detector would report the simulator instead of the library.
package simrt

// Decision kinds (one tape stream each, so that shrinking the workload or one
// stream does not shift the meaning of the others).
const (
	KSched = iota // which task runs next
	KPool         // which pooled item Get returns / whether Put drops
	KMap          // permutation steps at a map range
	KAddr         // numbering of %p tokens
	KFault        // fault placement drawn at run time (pool GC, fp-yield subset …)
	NKinds
)

var KindNames = [NKinds]string{"sched", "pool", "map", "addr", "fault"}

// Stream is one recorded/replayed decision sequence.
type Stream struct {
	Vals   []uint32 // preallocated; len grows up to cap, never reallocated in a run
	Pos    int      // read position (replay) / == len(Vals) (explore)
	Replay bool
	rng    uint64
	Over   bool // more decisions than capacity (explore): from there on every decision is the canonical 0, which is what a replay reads past the end of a tape
}

// Tape is the complete decision record of one run.
type Tape struct {
	S [NKinds]Stream
}

const streamCap = 1 << 21

// NewTape returns an explore-mode tape seeded from seed.
func NewTape(seed uint64) *Tape {
	t := &Tape{}
	for k := 0; k < NKinds; k++ {
		c := streamCap
		if k != KSched {
			c = streamCap / 8
		}
		t.S[k].Vals = make([]uint32, 0, c)
	}
	t.Reset(seed)
	return t
}

// Reset makes an explore-mode tape ready for another run without reallocating
// its streams (workers reuse one tape for all their runs).
func (t *Tape) Reset(seed uint64) {
	for k := 0; k < NKinds; k++ {
		t.S[k].Vals = t.S[k].Vals[:0]
		t.S[k].Pos = 0
		t.S[k].Over = false
		t.S[k].Replay = false
		t.S[k].rng = mix(seed + uint64(k)*0x632be59bd9b4e019)
	}
}

// NewReplayTape returns a tape that replays vals (copied) and yields 0 beyond.
func NewReplayTape(vals [NKinds][]uint32) *Tape {
	t := &Tape{}
	for k := 0; k < NKinds; k++ {
		v := make([]uint32, len(vals[k]))
		for i := range vals[k] {
			v[i] = vals[k][i]
		}
		t.S[k].Vals = v
		t.S[k].Replay = true
	}
	return t
}

// Snapshot returns copies of the recorded streams (call after the run, from the
// harness goroutine).
func (t *Tape) Snapshot() [NKinds][]uint32 {
	var out [NKinds][]uint32
	for k := 0; k < NKinds; k++ {
		n := len(t.S[k].Vals)
		if t.S[k].Replay && t.S[k].Pos < n {
			n = t.S[k].Pos
		}
		v := make([]uint32, n)
		for i := 0; i < n; i++ {
			v[i] = t.S[k].Vals[i]
		}
		out[k] = v
	}
	return out
}

//go:norace
func mix(z uint64) uint64 {
	z += 0x9e3779b97f4a7c15
	z = (z ^ (z >> 30)) * 0xbf58476d1ce4e5b9
	z = (z ^ (z >> 27)) * 0x94d049bb133111eb
	return z ^ (z >> 31)
}

//go:norace
func (s *Stream) next() uint64 {
	s.rng += 0x9e3779b97f4a7c15
	z := s.rng
	z = (z ^ (z >> 30)) * 0xbf58476d1ce4e5b9
	z = (z ^ (z >> 27)) * 0x94d049bb133111eb
	return z ^ (z >> 31)
}

// rawRand draws from the stream's PRNG without recording (explore-mode policies
// use it to decide *how* to choose; only the resulting choice is recorded).
//
//go:norace
func (t *Tape) rawRand(kind int) uint64 {
	return t.S[kind].next()
}

// record stores an explore-mode decision.
//
//go:norace
func (s *Stream) record(v uint32) {
	if len(s.Vals) >= cap(s.Vals) {
		s.Over = true
		return
	}
	s.Vals = s.Vals[:len(s.Vals)+1]
	s.Vals[len(s.Vals)-1] = v
	s.Pos = len(s.Vals)
}

// read returns the next replayed decision (0 past the end).
//
//go:norace
func (s *Stream) read() uint32 {
	if s.Pos >= len(s.Vals) {
		s.Pos++
		return 0
	}
	v := s.Vals[s.Pos]
	s.Pos++
	return v
}

// choose returns a decision in [0,n). In explore mode it is uniform; callers
// that want a biased policy use chooseWith.
//
//go:norace
func (t *Tape) choose(kind, n int) int {
	if n <= 1 {
		return 0
	}
	s := &t.S[kind]
	if s.Replay {
		return int(s.read() % uint32(n))
	}
	if s.Over {
		return 0
	}
	v := uint32(s.next() % uint64(n))
	s.record(v)
	if s.Over {
		return 0
	}
	return int(v)
}

// chooseWith records the explore-mode decision v (already computed by a policy)
// or, in replay mode, ignores v and returns the replayed one.
//
//go:norace
func (t *Tape) chooseWith(kind, n, v int) int {
	if n <= 1 {
		return 0
	}
	s := &t.S[kind]
	if s.Replay {
		return int(s.read() % uint32(n))
	}
	if s.Over {
		return 0
	}
	s.record(uint32(v))
	if s.Over {
		return 0 // the stream is full: not recorded, so the canonical decision is taken (DESIGN §8, FA11)
	}
	return v
}
