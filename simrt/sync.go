package simrt

import (
	stdsync "sync"
	"sync/atomic"
)

// The simulated primitives wrap the real ones. A sim-level gate decides
// ownership and blocking (so the scheduler, not the Go runtime, decides who
// runs); the real primitive is then called only when it cannot block, so the
// race detector sees exactly the happens-before edges the real primitive gives.

type Locker = stdsync.Locker

// Cond is a condition variable at simulator level: Wait releases L, parks the task
// in the scheduler (not the OS thread that holds the baton) until a later Signal or
// Broadcast, and takes L again. Outside a simulated run the real sync.Cond is used.
// Signal -> Wait-return edges for the race detector come from a token, like the
// pool's per-item token; L's Unlock -> Lock edges are the real ones.
type Cond struct {
	L Locker

	real    *stdsync.Cond
	key     uintptr
	waiting int // tasks parked in Wait
	permits int // wake-ups granted and not yet consumed
	tok     uint32
}

//go:norace
func (c *Cond) adj(dw, dp int) (int, int) {
	c.waiting += dw
	c.permits += dp
	return c.waiting, c.permits
}

func (c *Cond) realCond() *stdsync.Cond {
	if c.real == nil {
		c.real = stdsync.NewCond(c.L)
	}
	return c.real
}

func (c *Cond) Wait() {
	if !Running() {
		c.realCond().Wait()
		return
	}
	c.adj(1, 0)
	c.L.Unlock()
	for {
		if _, p := c.adj(0, 0); p > 0 {
			break
		}
		Block(&c.key)
	}
	c.adj(-1, -1)
	atomic.LoadUint32(&c.tok)
	c.L.Lock()
}

func (c *Cond) Signal() {
	if !Running() {
		c.realCond().Signal()
		return
	}
	atomic.AddUint32(&c.tok, 1)
	if w, p := c.adj(0, 0); w > p {
		c.adj(0, 1)
		Unblock(&c.key)
	}
	Yield(YAtomic, 0)
}

func (c *Cond) Broadcast() {
	if !Running() {
		c.realCond().Broadcast()
		return
	}
	atomic.AddUint32(&c.tok, 1)
	if w, p := c.adj(0, 0); w > p {
		c.adj(0, w-p)
		Unblock(&c.key)
	}
	Yield(YAtomic, 0)
}

// Map wraps the real sync.Map: every operation is a yield point (so that the window
// between a Load and a later Store of a check-then-act sequence can be entered, as
// at the atomic seam), the real map gives the race detector the real Store -> Load
// edges, and Range visits the keys in an order the simulator owns (order of first
// insertion, permuted by the map-order stream of the tape like any ranged Go map)
// instead of the runtime's random one.
type Map struct {
	m     stdsync.Map
	mu    stdsync.Mutex // guards order; only taken with the race detector blinded, so it adds no happens-before edge
	order []any
}

//go:norace
func (m *Map) note(k any) {
	raceOff()
	m.mu.Lock()
	found := false
	for i := 0; i < len(m.order); i++ {
		if m.order[i] == k {
			found = true
			break
		}
	}
	if !found {
		m.order = append(m.order, k)
	}
	m.mu.Unlock()
	raceOn()
}

//go:norace
func (m *Map) forget(k any) {
	raceOff()
	m.mu.Lock()
	for i := 0; i < len(m.order); i++ {
		if m.order[i] == k {
			for j := i; j+1 < len(m.order); j++ {
				m.order[j] = m.order[j+1]
			}
			m.order[len(m.order)-1] = nil
			m.order = m.order[:len(m.order)-1]
			break
		}
	}
	m.mu.Unlock()
	raceOn()
}

//go:norace
func (m *Map) snapshot() []any {
	raceOff()
	m.mu.Lock()
	kk := make([]any, len(m.order))
	for i := 0; i < len(m.order); i++ {
		kk[i] = m.order[i]
	}
	m.mu.Unlock()
	raceOn()
	return kk
}

func (m *Map) Load(key any) (any, bool) { Yield(YAtomic, 0); return m.m.Load(key) }
func (m *Map) Store(key, value any)     { Yield(YAtomic, 0); m.note(key); m.m.Store(key, value) }
func (m *Map) Clear() {
	Yield(YAtomic, 0)
	for _, k := range m.snapshot() {
		m.forget(k)
	}
	m.m.Range(func(k, _ any) bool { m.m.Delete(k); return true })
}
func (m *Map) LoadOrStore(key, value any) (any, bool) {
	Yield(YAtomic, 0)
	m.note(key)
	return m.m.LoadOrStore(key, value)
}
func (m *Map) LoadAndDelete(key any) (any, bool) {
	Yield(YAtomic, 0)
	v, ok := m.m.LoadAndDelete(key)
	m.forget(key)
	return v, ok
}
func (m *Map) Delete(key any) { Yield(YAtomic, 0); m.m.Delete(key); m.forget(key) }
func (m *Map) Swap(key, value any) (any, bool) {
	Yield(YAtomic, 0)
	m.note(key)
	return m.m.Swap(key, value)
}
func (m *Map) CompareAndSwap(key, old, new any) bool {
	Yield(YAtomic, 0)
	return m.m.CompareAndSwap(key, old, new)
}
func (m *Map) CompareAndDelete(key, old any) bool {
	Yield(YAtomic, 0)
	ok := m.m.CompareAndDelete(key, old)
	if ok {
		m.forget(key)
	}
	return ok
}

// Range: snapshot of the keys (entries stored during the iteration are not
// visited, one of the behaviours sync.Map allows), in the simulator's order.
func (m *Map) Range(f func(key, value any) bool) {
	Yield(YAtomic, 0)
	kk := m.snapshot()
	moved := false
	if len(kk) >= 2 && permActive() {
		for i := len(kk) - 1; i > 0; i-- {
			j := i - mapChoice(i+1)
			if j != i {
				kk[i], kk[j] = kk[j], kk[i]
				moved = true
			}
		}
	} else if len(kk) >= 2 {
		mapIdentity(len(kk) - 1)
	}
	if len(kk) >= 2 {
		noteRange(moved)
	}
	for _, k := range kk {
		v, ok := m.m.Load(k)
		if !ok {
			continue
		}
		if !f(k, v) {
			return
		}
	}
}

func NewCond(l Locker) *Cond { return &Cond{L: l} }

// ---------------- Mutex ----------------

type Mutex struct {
	real stdsync.Mutex
	held bool
	key  uintptr
}

//go:norace
func (m *Mutex) isHeld() bool { return m.held }

//go:norace
func (m *Mutex) setHeld(b bool) {
	m.held = b
	if R.active {
		if b {
			R.tasks[R.cur].held++
		} else {
			R.tasks[R.cur].held--
		}
	}
}

func (m *Mutex) Lock() {
	if !Running() {
		m.real.Lock()
		return
	}
	Yield(YLock, 0)
	for m.isHeld() {
		Block(&m.key)
	}
	m.setHeld(true)
	m.real.Lock()
	Yield(YLocked, 0)
}

func (m *Mutex) TryLock() bool {
	if !Running() {
		return m.real.TryLock()
	}
	Yield(YLock, 0)
	if m.isHeld() {
		return false
	}
	m.setHeld(true)
	m.real.Lock()
	return true
}

func (m *Mutex) Unlock() {
	m.real.Unlock()
	if !Running() {
		return
	}
	m.setHeld(false)
	Unblock(&m.key)
	Yield(YUnlock, 0)
}

// ---------------- RWMutex ----------------

type RWMutex struct {
	real     stdsync.RWMutex
	readers  int
	writer   bool
	wwaiting int // writers parked: new readers must wait (Go's writer preference)
	key      uintptr
}

//go:norace
func (m *RWMutex) st() (int, bool, int) { return m.readers, m.writer, m.wwaiting }

//go:norace
func (m *RWMutex) addR(d int) {
	m.readers += d
	if R.active {
		R.tasks[R.cur].held += d
	}
}

//go:norace
func (m *RWMutex) setW(b bool) {
	m.writer = b
	if R.active {
		if b {
			R.tasks[R.cur].held++
		} else {
			R.tasks[R.cur].held--
		}
	}
}

//go:norace
func (m *RWMutex) addWW(d int) { m.wwaiting += d }

//go:norace
func noteWriterBlock() { R.st.WriterBlock++ }

func (m *RWMutex) Lock() {
	if !Running() {
		m.real.Lock()
		return
	}
	Yield(YLock, 0)
	waiting := false
	for {
		r, w, _ := m.st()
		if r == 0 && !w {
			break
		}
		if !waiting {
			waiting = true
			m.addWW(1)
			noteWriterBlock()
		}
		Block(&m.key)
	}
	if waiting {
		m.addWW(-1)
	}
	m.setW(true)
	m.real.Lock()
	Yield(YLocked, 0)
}

func (m *RWMutex) TryLock() bool {
	if !Running() {
		return m.real.TryLock()
	}
	Yield(YLock, 0)
	r, w, _ := m.st()
	if r != 0 || w {
		return false
	}
	m.setW(true)
	m.real.Lock()
	return true
}

func (m *RWMutex) Unlock() {
	m.real.Unlock()
	if !Running() {
		return
	}
	m.setW(false)
	Unblock(&m.key)
	Yield(YUnlock, 0)
}

func (m *RWMutex) RLock() {
	if !Running() {
		m.real.RLock()
		return
	}
	Yield(YRLock, 0)
	for {
		_, w, ww := m.st()
		if !w && ww == 0 {
			break
		}
		noteWriterBlock()
		Block(&m.key)
	}
	m.addR(1)
	m.real.RLock()
	Yield(YRLocked, 0)
}

func (m *RWMutex) TryRLock() bool {
	if !Running() {
		return m.real.TryRLock()
	}
	Yield(YRLock, 0)
	_, w, ww := m.st()
	if w || ww != 0 {
		return false
	}
	m.addR(1)
	m.real.RLock()
	return true
}

func (m *RWMutex) RUnlock() {
	m.real.RUnlock()
	if !Running() {
		return
	}
	m.addR(-1)
	Unblock(&m.key)
	Yield(YRUnlock, 0)
}

type rlocker RWMutex

func (r *rlocker) Lock()   { (*RWMutex)(r).RLock() }
func (r *rlocker) Unlock() { (*RWMutex)(r).RUnlock() }

func (m *RWMutex) RLocker() Locker { return (*rlocker)(m) }

// ---------------- Once ----------------

type Once struct {
	real  stdsync.Once
	state int // 0 new, 1 running, 2 done
	key   uintptr
}

//go:norace
func (o *Once) getState() int { return o.state }

//go:norace
func (o *Once) setState(s int) { o.state = s }

//go:norace
func noteOnceContend() { R.st.OnceContend++ }

func (o *Once) Do(f func()) {
	if !Running() {
		o.real.Do(f)
		return
	}
	Yield(YOnceEnter, 0)
	for o.getState() == 1 {
		noteOnceContend()
		Block(&o.key)
	}
	// The real Once is the source of truth for "done" (it may have completed
	// while the simulator was not running, e.g. during set-up).
	if o.getState() == 0 {
		o.setState(1)
		func() {
			defer func() {
				o.setState(2)
				Unblock(&o.key)
			}()
			o.real.Do(f)
		}()
		Yield(YOnceExit, 0)
		return
	}
	o.real.Do(func() {})
}

func OnceFunc(f func()) func() {
	var once Once
	return func() { once.Do(f) }
}

func OnceValue[T any](f func() T) func() T {
	var once Once
	var r T
	return func() T {
		once.Do(func() { r = f() })
		return r
	}
}

func OnceValues[T1, T2 any](f func() (T1, T2)) func() (T1, T2) {
	var once Once
	var r1 T1
	var r2 T2
	return func() (T1, T2) {
		once.Do(func() { r1, r2 = f() })
		return r1, r2
	}
}

// ---------------- Pool ----------------

// Pool models sync.Pool with an explicit, simulator-owned free list. Legal
// sync.Pool behaviours that real runs rarely show are tape decisions here:
// Get may call New although items are free, may return any free item, Put may
// drop the item, and the harness may clear all pools between operations (GC).
// Canonical behaviour (inactive simulator, or tape exhausted): plain LIFO.
type Pool struct {
	noCopy noCopy
	New    func() any

	free []poolItem
	reg  bool
	xtok uint32
}

type poolItem struct {
	x     any
	tok   *uint32
	owner int // task that put it
}

type noCopy struct{}

func (*noCopy) Lock()   {}
func (*noCopy) Unlock() {}

const maxPools = 64

var pools [maxPools]*Pool
var npools int

//go:norace
func resetPools() {
	for i := 0; i < npools; i++ {
		pools[i].free = pools[i].free[:0]
	}
}

// PoolGC clears every pool (models a GC cycle emptying sync.Pool victims).
//
//go:norace
func PoolGC() {
	n := 0
	for i := 0; i < npools; i++ {
		n += len(pools[i].free)
		for j := range pools[i].free {
			pools[i].free[j] = poolItem{}
		}
		pools[i].free = pools[i].free[:0]
	}
	if n > 0 {
		R.st.PoolGC++
	}
}

// PoolFree returns the total number of free items over all pools.
//
//go:norace
func PoolFree() int {
	n := 0
	for i := 0; i < npools; i++ {
		n += len(pools[i].free)
	}
	return n
}

//go:norace
func (p *Pool) register() {
	if p.reg {
		return
	}
	p.reg = true
	if npools < maxPools {
		pools[npools] = p
		npools++
	}
	if p.free == nil {
		p.free = make([]poolItem, 0, 256)
	}
}

// take removes and returns a free item per the tape (nil: call New).
//
//go:norace
func (p *Pool) take() (any, *uint32) {
	p.register()
	n := len(p.free)
	if n == 0 {
		return nil, nil
	}
	idx := n - 1 // LIFO
	if R.active && R.quiet == 0 {
		// encoding: 0 = LIFO item, 1 = fresh New(), k>=2 = item n-k (older ones)
		opts := n + 1
		v := 0
		if !R.tape.S[KPool].Replay {
			r := int(R.tape.rawRand(KPool) % 10000)
			if r < R.cfg.PoolFreshPct*100 {
				v = 1
			} else if n > 1 && r < (R.cfg.PoolFreshPct+R.cfg.PoolAnyPct)*100 {
				v = 2 + int(R.tape.rawRand(KPool)%uint64(n-1))
			}
		}
		c := R.tape.chooseWith(KPool, opts, v)
		switch {
		case c == 0:
		case c == 1:
			R.st.PoolFresh++
			return nil, nil
		default:
			idx = n - c
			R.st.PoolAny++
		}
	}
	it := p.free[idx]
	for j := idx; j+1 < n; j++ {
		p.free[j] = p.free[j+1]
	}
	p.free[n-1] = poolItem{}
	p.free = p.free[:n-1]
	if R.active {
		R.st.PoolReuse++
		if it.owner != R.cur {
			R.st.PoolCross++
		}
	}
	return it.x, it.tok
}

// give stores x unless the tape says the pool drops it. It returns the
// item's synchronisation token (nil if dropped).
//
//go:norace
func (p *Pool) give(x any, tok *uint32) bool {
	p.register()
	if R.active && R.quiet == 0 {
		v := 0
		if !R.tape.S[KPool].Replay {
			if int(R.tape.rawRand(KPool)%10000) < R.cfg.PoolDropPct*100 {
				v = 1
			}
		}
		if R.tape.chooseWith(KPool, 2, v) == 1 {
			R.st.PoolDrop++
			return false
		}
	}
	if len(p.free) >= cap(p.free) {
		return false // full: dropping is legal
	}
	owner := -1
	if R.active {
		owner = R.cur
	}
	p.free = p.free[:len(p.free)+1]
	p.free[len(p.free)-1] = poolItem{x: x, tok: tok, owner: owner}
	return true
}

//go:norace
func notePoolGet() { R.st.PoolGets++ }

func (p *Pool) Get() any {
	Yield(YPoolGet, 0)
	notePoolGet()
	x, tok := p.take()
	if x == nil {
		if p.New != nil {
			x = p.New()
		}
		Yield(YPoolGot, 0)
		return x
	}
	// the Put(x) -> Get(x) edge of the real sync.Pool, per item
	if tok != nil {
		atomic.LoadUint32(tok)
	}
	Yield(YPoolGot, 0)
	return x
}

func (p *Pool) Put(x any) {
	if x == nil {
		return
	}
	tok := new(uint32)
	atomic.AddUint32(tok, 1)
	p.give(x, tok)
	Yield(YPoolPut, 0)
}

// ---------------- WaitGroup ----------------

// WaitGroup wraps the real one: the counter is mirrored at simulator level so
// that Wait parks the task (instead of blocking the OS thread that holds the
// baton); the real Wait is called once it cannot block, which gives the race
// detector the real Done -> Wait edges.
type WaitGroup struct {
	real stdsync.WaitGroup
	n    int
	key  uintptr
}

//go:norace
func (wg *WaitGroup) addN(d int) int { wg.n += d; return wg.n }

//go:norace
func (wg *WaitGroup) getN() int { return wg.n }

func (wg *WaitGroup) Add(delta int) {
	wg.real.Add(delta)
	if wg.addN(delta) <= 0 {
		Unblock(&wg.key)
	}
	Yield(YWaitGroup, 0)
}

func (wg *WaitGroup) Done() { wg.Add(-1) }

func (wg *WaitGroup) Wait() {
	if !Running() {
		wg.real.Wait()
		return
	}
	Yield(YWaitGroup, 0)
	for wg.getN() > 0 {
		Block(&wg.key)
	}
	wg.real.Wait()
}
