package simrt

// Failpoints / probes. simprep inserts FP(id) at the entry of every library
// function; Sites (generated) describes them.

type Site struct {
	Pkg      string
	Func     string
	Pos      string
	HasPanic bool // the function itself contains a panic(...) call: callers already tolerate a panic from it
	InScope  bool // package runs inside the public API's recover scope
}

// Sites is filled by the generated file sites_gen.go in the scratch copy.
var Sites []Site

func NSites() int { return len(Sites) }

// InjectedPanic is the value F-panic panics with. It implements error.
type InjectedPanic struct{ Site int }

func (e *InjectedPanic) Error() string { return "simrt: injected failure" }

// FP is the instrumented function-entry probe.
//
//go:norace
func FP(id uint32) {
	if !R.active || R.quiet != 0 {
		return
	}
	fpSlow(id)
}

//go:norace
func fpSlow(id uint32) {
	if id >= maxSites {
		return
	}
	R.st.FPHits++
	if R.fpReach[id] != ^uint32(0) {
		R.fpReach[id]++
	}
	if R.fpArmed && int(id) < len(Sites) && Sites[id].HasPanic && Sites[id].InScope {
		R.fpHitNo++
		if R.fpHitNo == R.fpPanicAt {
			R.fpArmed = false
			R.fpFiredAt = int32(id)
			R.st.FPPanics++
			event(YFP, uint64(id)|1<<40)
			panic(&InjectedPanic{Site: int(id)})
		}
	}
	if R.fpYield[id] {
		Yield(YFP, uint64(id))
	}
}

// ArmPanic makes the n-th (1-based) panic-capable failpoint hit from now on
// panic. n<=0 disarms. Returns nothing; FiredAt tells whether it fired.
//
//go:norace
func ArmPanic(n int) {
	R.fpHitNo = 0
	R.fpPanicAt = n
	R.fpArmed = n > 0
	R.fpFiredAt = -1
}

// Disarm disarms and reports how many panic-capable hits were counted since
// ArmPanic and the site that fired (-1: none).
//
//go:norace
func Disarm() (hits int, firedAt int) {
	R.fpArmed = false
	return R.fpHitNo, int(R.fpFiredAt)
}

// CountPanicSites counts panic-capable hits without firing (n = huge).
const CountOnly = 1 << 30

// Reach returns the per-site hit counts of the current run (copy).
//
//go:norace
func Reach(dst []uint32) []uint32 {
	n := len(Sites)
	if n > maxSites {
		n = maxSites
	}
	if cap(dst) < n {
		dst = make([]uint32, n)
	}
	dst = dst[:n]
	for i := 0; i < n; i++ {
		dst[i] = R.fpReach[i]
	}
	return dst
}
