package simrt

import (
	"context"
	"sync/atomic"
	"time"
)

// Timer seam (discrete-event time). simprep routes time.After / NewTimer /
// AfterFunc / NewTicker / Tick, the types time.Timer and time.Ticker, and
// context.WithTimeout / WithDeadline of the library through here. While the
// simulator runs, a timer is an entry in the simulator's event list, ordered by
// (simulated deadline, creation number). It fires
//
//   - at the first scheduling point after the simulated clock has passed its
//     deadline (the clock moves with every read and every Sleep of the library), or
//   - when no task can take a step: the clock then jumps to the earliest deadline,
//     so that a minute-long timeout costs nothing and a run in which everybody
//     waits for a timer is not a deadlock.
//
// A channel timer delivers into a simulator-owned channel of capacity one (a full
// channel drops the tick, as Go does), a function timer starts its function as a
// new simulated task, and so does the timer that cancels a context with a deadline. Outside a simulated run
// every function here is the standard library's.
//
// Semantics are those of a module that declares go < 1.23 (the library does):
// Stop and Reset do not drain the channel.

const (
	tChan = iota
	tFunc
)

type timerEnt struct {
	when   int64
	seq    uint64
	kind   int
	ch     chan time.Time
	f      func()
	period int64
	active bool
	tok    uint32 // arming task -> the task the timer starts (as a timer's function has in Go)
}

var timerList []*timerEnt
var timerSeq uint64
var timerTok uint32 // never written: a receive from a timer channel has no happens-before edge to the task that fired it

//go:norace
func resetTimers() {
	for i := range timerList {
		timerList[i] = nil
	}
	timerList = timerList[:0]
	timerSeq = 0
}

//go:norace
func timersPending() bool { return len(timerList) > 0 }

// TimersArmed: has the library timers armed right now (in a simulated run)?
//
//go:norace
func TimersArmed() bool { return R.active && R.quiet == 0 && len(timerList) > 0 }

//go:norace
func addTimer(d time.Duration, kind int, ch chan time.Time, f func(), period time.Duration) *timerEnt {
	if d < 0 {
		d = 0
	}
	timerSeq++
	e := &timerEnt{when: clockNs + int64(d), seq: timerSeq, kind: kind, ch: ch, f: f, period: int64(period), active: true}
	timerList = append(timerList, e)
	R.st.Timers++
	atomic.AddUint32(&e.tok, 1)
	return e
}

//go:norace
func stopTimer(e *timerEnt) bool {
	was := e.active
	e.active = false
	for i, x := range timerList {
		if x == e {
			last := len(timerList) - 1
			timerList[i] = timerList[last]
			timerList[last] = nil
			timerList = timerList[:last]
			break
		}
	}
	return was
}

//go:norace
func rearmTimer(e *timerEnt, d time.Duration) bool {
	was := stopTimer(e)
	if d < 0 {
		d = 0
	}
	timerSeq++
	e.when, e.seq, e.active = clockNs+int64(d), timerSeq, true
	timerList = append(timerList, e)
	atomic.AddUint32(&e.tok, 1)
	return was
}

// earliest returns the index of the timer that fires first, or -1.
//
//go:norace
func earliest() int {
	b := -1
	for i, e := range timerList {
		if b < 0 || e.when < timerList[b].when || (e.when == timerList[b].when && e.seq < timerList[b].seq) {
			b = i
		}
	}
	return b
}

//go:norace
func timerTake(i int) *timerEnt {
	e := timerList[i]
	if e.period > 0 {
		e.when += e.period
		if e.when <= clockNs {
			e.when = clockNs + 1 // a ticker that fell behind skips the ticks it missed
		}
		timerSeq++
		e.seq = timerSeq
		return e
	}
	e.active = false
	last := len(timerList) - 1
	timerList[i] = timerList[last]
	timerList[last] = nil
	timerList = timerList[:last]
	return e
}

//go:norace
func timerDue() (*timerEnt, bool) {
	i := earliest()
	if i < 0 || timerList[i].when > clockNs {
		return nil, false
	}
	return timerTake(i), true
}

//go:norace
func timerJump() (*timerEnt, bool) {
	i := earliest()
	if i < 0 {
		return nil, false
	}
	if timerList[i].when > clockNs {
		clockNs = timerList[i].when
	}
	R.st.TimerJumps++
	return timerTake(i), true
}

//go:norace
func noteFired() {
	R.st.TimerFires++
	event(YTimer, uint64(R.st.TimerFires))
}

// fire carries out what timer e does. Runs in whichever task is at a scheduling
// point; it does not yield.
func fire(e *timerEnt) {
	noteFired()
	switch e.kind {
	case tChan:
		st := chanLookup(chanID(e.ch))
		if chanLen(st) == 0 {
			chanEnqueue(st, chanItem{v: clockBase.Add(time.Duration(nowNs())), tok: &timerTok})
			chanChanged(st)
		}
	case tFunc:
		f := e.f
		if !spawn(func() { atomic.LoadUint32(&e.tok); f() }) {
			fatal(VHarnessBug, "more than MaxTasks simulated tasks")
		}
	}
}

//go:norace
func nowNs() int64 { return clockNs }

// fireDue fires every timer whose deadline the clock has passed.
func fireDue() {
	for {
		e, ok := timerDue()
		if !ok {
			return
		}
		fire(e)
	}
}

// fireNext is called when no task can take a step: the clock jumps to the earliest
// deadline and that timer (and whatever else is due then) fires. false: no timer.
func fireNext() bool {
	e, ok := timerJump()
	if !ok {
		return false
	}
	idleFire()
	fire(e)
	fireDue()
	return true
}

// Timer is time.Timer.
type Timer struct {
	C    <-chan time.Time
	ent  *timerEnt
	real *time.Timer
}

func TimeNewTimer(d time.Duration) *Timer {
	if !simulated() {
		r := time.NewTimer(d)
		return &Timer{C: r.C, real: r}
	}
	ch := RegChan(make(chan time.Time, 1))
	return &Timer{C: ch, ent: addTimer(d, tChan, ch, nil, 0)}
}

func TimeAfter(d time.Duration) <-chan time.Time { return TimeNewTimer(d).C }

func TimeAfterFunc(d time.Duration, f func()) *Timer {
	if !simulated() {
		return &Timer{real: time.AfterFunc(d, f)}
	}
	return &Timer{ent: addTimer(d, tFunc, nil, f, 0)}
}

func (t *Timer) Stop() bool {
	if t.real != nil {
		return t.real.Stop()
	}
	if t.ent == nil {
		panic("time: Stop called on uninitialized Timer")
	}
	return stopTimer(t.ent)
}

func (t *Timer) Reset(d time.Duration) bool {
	if t.real != nil {
		return t.real.Reset(d)
	}
	if t.ent == nil {
		panic("time: Reset called on uninitialized Timer")
	}
	return rearmTimer(t.ent, d)
}

// Ticker is time.Ticker.
type Ticker struct {
	C    <-chan time.Time
	ent  *timerEnt
	real *time.Ticker
}

func TimeNewTicker(d time.Duration) *Ticker {
	if d <= 0 {
		panic("non-positive interval for NewTicker")
	}
	if !simulated() {
		r := time.NewTicker(d)
		return &Ticker{C: r.C, real: r}
	}
	ch := RegChan(make(chan time.Time, 1))
	return &Ticker{C: ch, ent: addTimer(d, tChan, ch, nil, d)}
}

func TimeTick(d time.Duration) <-chan time.Time {
	if d <= 0 {
		return nil
	}
	return TimeNewTicker(d).C
}

func (t *Ticker) Stop() {
	if t.real != nil {
		t.real.Stop()
		return
	}
	stopTimer(t.ent)
}

func (t *Ticker) Reset(d time.Duration) {
	if d <= 0 {
		panic("non-positive interval for Ticker.Reset")
	}
	if t.real != nil {
		t.real.Reset(d)
		return
	}
	setPeriod(t.ent, d)
	rearmTimer(t.ent, d)
}

//go:norace
func setPeriod(e *timerEnt, d time.Duration) { e.period = int64(d) }

// ---- contexts with a deadline -----------------------------------------------------
//
// The context is a cancel context of the standard library (its Done channel is not
// the simulator's: receives from it poll, see chan.go) that a simulated timer
// cancels. Err of the context itself reports DeadlineExceeded; a context derived
// from it reports Canceled after the deadline (stated limit).

type deadlineCtx struct {
	context.Context
	dl    time.Time
	fired *uint32
}

func (c *deadlineCtx) Deadline() (time.Time, bool) { return c.dl, true }

func (c *deadlineCtx) Err() error {
	if atomic.LoadUint32(c.fired) == 1 && c.Context.Err() != nil {
		return context.DeadlineExceeded
	}
	return c.Context.Err()
}

func CtxWithDeadline(parent context.Context, d time.Time) (context.Context, context.CancelFunc) {
	if !simulated() {
		return context.WithDeadline(parent, d)
	}
	if cur, ok := parent.Deadline(); ok && cur.Before(d) {
		return context.WithCancel(parent) // the parent's deadline is sooner
	}
	inner, cancel := context.WithCancel(parent)
	c := &deadlineCtx{Context: inner, dl: d, fired: new(uint32)}
	expire := func() {
		if inner.Err() == nil {
			atomic.StoreUint32(c.fired, 1)
		}
		cancel()
	}
	left := d.Sub(clockBase.Add(time.Duration(nowNs())))
	if left <= 0 {
		expire()
		return c, cancel
	}
	e := addTimer(left, tFunc, nil, expire, 0)
	return c, func() {
		stopTimer(e)
		cancel()
	}
}

func CtxWithTimeout(parent context.Context, d time.Duration) (context.Context, context.CancelFunc) {
	if !simulated() {
		return context.WithTimeout(parent, d)
	}
	return CtxWithDeadline(parent, clockBase.Add(time.Duration(nowNs())).Add(d))
}
