//go:build !race

package simrt

const RaceEnabled = false

func raceOff() {}
func raceOn()  {}
