package simrt

import "time"

// Clock seam: simprep routes time.Now / Since / Until / Sleep of the library
// through here, so the only clock the library reads is the simulator's. The clock
// is a counter: every read moves it forward by a step. The canonical step is a
// fixed tick (so that a loop that waits for a deadline terminates, in the same
// number of iterations, in every reference process); in a run that varies the
// clock a read may instead see no progress at all (two reads within the clock's
// resolution), a fine step, or a jump of milliseconds to seconds (a stalled or
// pre-empted caller, a slow machine). Decisions come from the fault stream of the
// tape; 0 = canonical tick.
//
// Times have no monotonic reading and never go backwards (a wall-clock step
// backwards is invisible to Go code that compares time.Now() values, which carry
// a monotonic reading).

const canonicalTick = 50 * time.Microsecond

var clockSteps = [...]time.Duration{canonicalTick, 0, time.Microsecond, time.Millisecond, 20 * time.Millisecond, 3 * time.Second}

var clockBase = time.Date(2026, 10, 4, 12, 0, 0, 0, time.UTC)
var clockNs int64

//go:norace
func resetClock() { clockNs, stalled, stallsLeft, stallGap = 0, 0, maxStalls, 0 }

// A stalled or slow process: while the library has timers armed, a scheduling point
// may cost simulated time (a step of the table above) in a run that varies the
// clock - at most 64 times and a minute in total per run, so that a result which
// depends on finishing before a timeout of seconds shows, and an hour-long safety
// timeout never fires. One tape decision says how long the stall is and how many
// scheduling points later the next one may come. Without pending timers nothing is
// drawn (the tapes of runs without timers are what they were).
const maxStall = int64(time.Minute)
const maxStalls = 64

var stallGaps = [...]int{1, 3, 10, 30, 100, 1000}

var stalled int64
var stallsLeft, stallGap int

//go:norace
func stall() {
	if stallsLeft == 0 {
		return
	}
	if stallGap > 0 {
		stallGap--
		return
	}
	stallsLeft--
	nS, nG := len(clockSteps), len(stallGaps)
	v := 0
	if !R.tape.S[KFault].Replay && R.cfg.ClockVaryPct > 0 {
		g := int(R.tape.rawRand(KFault) % uint64(nG))
		sz := 0
		if int(R.tape.rawRand(KFault)%100) < 20+R.cfg.ClockVaryPct {
			sz = 1 + int(R.tape.rawRand(KFault)%uint64(nS-1))
		}
		v = g*nS + sz
	}
	v = R.tape.chooseWith(KFault, nS*nG, v)
	stallGap = stallGaps[v/nS]
	d := int64(clockSteps[v%nS])
	if v%nS == 0 || d == 0 || stalled+d > maxStall {
		return
	}
	stalled += d
	clockNs += d
	R.st.Stalls++
}

//go:norace
func clockRead(extra time.Duration) int64 {
	step := canonicalTick
	if R.active && R.quiet == 0 {
		v := 0
		if !R.tape.S[KFault].Replay && R.cfg.ClockVaryPct > 0 {
			if int(R.tape.rawRand(KFault)%100) < R.cfg.ClockVaryPct {
				v = 1 + int(R.tape.rawRand(KFault)%uint64(len(clockSteps)-1))
			}
		}
		v = R.tape.chooseWith(KFault, len(clockSteps), v)
		step = clockSteps[v]
		R.st.ClockReads++
		if v != 0 {
			R.st.ClockJumps++
		}
	}
	clockNs += int64(step) + int64(extra)
	return clockNs
}

func TimeNow() time.Time                  { return clockBase.Add(time.Duration(clockRead(0))) }
func TimeSince(t time.Time) time.Duration { return TimeNow().Sub(t) }
func TimeUntil(t time.Time) time.Duration { return t.Sub(TimeNow()) }

// TimeSleep advances the clock by d and lets other tasks run.
func TimeSleep(d time.Duration) {
	if d < 0 {
		d = 0
	}
	clockRead(d)
	YieldAway(YAtomic)
}
