//go:build race

package simrt

import "runtime"

const RaceEnabled = true

func raceOff() { runtime.RaceDisable() }
func raceOn()  { runtime.RaceEnable() }
