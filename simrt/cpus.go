package simrt

// CPU-count seam: runtime.NumCPU() and runtime.GOMAXPROCS(n) of the library are
// answered by the simulator - 4 in the canonical configuration (whatever the
// machine), a value drawn from the fault stream once per run when the run varies
// it ("in every process": a result must not depend on how many CPUs there are).
// GOMAXPROCS(n > 0) is accepted and ignored (the simulator decides who runs).
// runtime.Gosched() is a yield point.

const canonicalCPUs = 4

var cpuChoices = [...]int{canonicalCPUs, 1, 2, 16, 64}

//go:norace
func cpus() int {
	if !R.active {
		return canonicalCPUs
	}
	if R.cpus == 0 {
		v := 0
		if !R.tape.S[KFault].Replay && R.cfg.CPUVary {
			v = int(R.tape.rawRand(KFault) % uint64(len(cpuChoices)))
		}
		v = R.tape.chooseWith(KFault, len(cpuChoices), v)
		R.cpus = cpuChoices[v]
	}
	return R.cpus
}

func NumCPU() int { return cpus() }

func GOMAXPROCS(n int) int { return cpus() }

func Gosched() { YieldAway(YAtomic) }
