package simrt

import (
	stdsync "sync"
)

// Site kinds of yield points (for the event log and for targeted policies).
const (
	YLock = iota + 1
	YLocked
	YUnlock
	YRLock
	YRLocked
	YRUnlock
	YOnceEnter
	YOnceExit
	YPoolGet
	YPoolGot
	YPoolPut
	YFP
	YTaskEnd
	YBlock
	YOpBoundary
	YAtomic
	YGo
	YChanSend
	YChanRecv
	YWaitGroup
	YTimer
	YPoll
	nYKinds
)

var YieldNames = [nYKinds]string{"", "Lock", "Locked", "Unlock", "RLock", "RLocked", "RUnlock",
	"OnceEnter", "OnceExit", "PoolGet", "PoolGot", "PoolPut", "FP", "TaskEnd", "Block", "OpBoundary", "Atomic", "Go", "ChanSend", "ChanRecv", "WaitGroup", "Timer", "Poll"}

// Scheduling policies (explore mode only; replay reads concrete choices).
const (
	PolRandom = iota
	PolSticky
	PolPCT
	PolTargeted
	NPolicies
)

var PolicyNames = [NPolicies]string{"random", "sticky", "pct", "targeted"}

// Verdicts that end a run from inside the scheduler.
const (
	VNone = iota
	VDeadlock
	VStepCap
	VHarnessBug
)

const MaxTasks = 64

type task struct {
	wake    chan struct{}
	done    bool
	blocked *uintptr // what the task waits for (nil: runnable)
	held    int      // sim-level locks currently held by this task
	prio    int      // PCT priority

	// a task that waits for a channel the simulator does not own (a context's Done
	// channel) is blocked on pollKey with a probe: whoever is at a scheduling point
	// looks for it (without consuming anything) and releases it when the channel is ready
	probing bool
	pcases  [16]SelCase // what it waits for: any of these
	npcases int
}

// Config is the per-run configuration the harness hands to Begin.
type Config struct {
	Tape *Tape

	Policy    int
	SwitchPct int // sticky/targeted: probability (percent*100, i.e. 1..10000) of switching at a yield point
	PCTDepth  int
	PCTSpan   int // steps over which PCT change points are spread

	StepCap int

	// faults (explore-mode gates; in replay mode the tape decides)
	MapPerm      bool
	AddrPolicy   int // 0 ascending, 1 descending, 2 random
	PoolFreshPct int
	PoolAnyPct   int
	PoolDropPct  int
	FPYieldPct   int  // percent of FP sites that are yield points in this run (0: none)
	ClockVaryPct int  // percent of clock reads that see a non-canonical step (stall, fine step, jump)
	CPUVary      bool // the CPU count the library is told differs from the canonical 4
	RandVary     bool // the process-wide random source is seeded differently from the canonical run
	KeepPools    bool // the pools keep what earlier runs of this process left in them (no GC in between)

	// failpoint panic: the PanicAtHit-th FP hit (1-based, counted among
	// panic-capable sites while armed) panics. Armed per operation by the harness.
	OnFatal func(verdict int, detail string) // must not return
}

// Stats are per-run counters (reset by Begin).
type Stats struct {
	Steps        int64
	Switches     int64
	Yields       [nYKinds]int64
	Blocks       int64
	OnceContend  int64 // a task found a Once running in another task
	WriterBlock  int64 // a writer blocked by reader(s) or a reader blocked by a writer
	MapPermFired int64 // non-identity permutation on a map with >=2 keys
	MapRanges    int64
	AddrTokens   int64
	AddrNonAsc   int64 // tokens numbered other than "next ascending"
	PoolGets     int64
	PoolFresh    int64 // New() although items were free
	PoolAny      int64 // non-LIFO item returned
	PoolDrop     int64 // Put dropped
	PoolGC       int64
	PoolCross    int64 // item handed to a task other than the one that put it
	PoolReuse    int64 // item reused at all
	Spawned      int64 // tasks started by the library itself (go statements)
	ClockReads   int64 // reads of the simulated clock by the library
	ClockJumps   int64 // … that saw a non-canonical step
	ChanOps      int64
	Timers       int64 // timers the library armed
	TimerFires   int64 // … that fired
	TimerJumps   int64 // … after the clock jumped to their deadline because no task could run
	Stalls       int64 // scheduling points that cost simulated time (a stalled process) while timers were armed
	Abandoned    int64 // tasks of the library still blocked when the run was over
	Polls        int64 // waits for a channel the simulator does not own (a context's Done channel)
	FPHits       int64
	FPPanics     int64
	EventHash    uint64
}

type runtimeState struct {
	active     bool
	quiet      int
	cfg        Config
	tape       *Tape
	ntasks     int
	nuser      int // tasks started by the harness (their slots are never reused)
	tasks      [MaxTasks]task
	cur        int
	back       chan struct{}
	join       *stdsync.WaitGroup // fresh per Run: a run that ended in a fatal verdict leaves its tasks parked
	st         Stats
	verdict    int
	nprobers   int   // tasks blocked with a probe
	stayRun    int   // decisions in a row that kept the current task running
	drainFires int   // timers fired after the harness's tasks had finished (per Run)
	drainUntil int64 // … and the simulated time up to which they are
	idleFires  int   // timers fired in a row while no task could run
	pctChange  [8]int64
	npct       int

	// failpoints
	fpYield   [maxSites]bool
	fpReach   [maxSites]uint32
	fpArmed   bool
	fpHitNo   int
	fpPanicAt int
	fpFiredAt int32
	cpus      int // CPU count told to the library in this run (0: not asked yet)

	// event ring for display
	ring  [ringSize]uint64
	ringN int64
}

const ringSize = 256
const maxSites = 8192

var R runtimeState

// Inactive-mode configuration (golden / plain use): canonical everything.

//go:norace
func Active() bool { return R.active && R.quiet == 0 }

//go:norace
func Running() bool { return R.active }

// Quiet suspends yielding and tape consumption (harness oracles call library
// code inside). Must be paired with Loud.
//
//go:norace
func Quiet() { R.quiet++ }

//go:norace
func Loud() { R.quiet-- }

//go:norace
func CurTask() int {
	if !R.active {
		return -1
	}
	return R.cur
}

// HeldBy reports how many sim-level locks task t currently holds.
//
//go:norace
func HeldBy(t int) int {
	if t < 0 || t >= MaxTasks {
		return 0
	}
	return R.tasks[t].held
}

//go:norace
func GetStats() Stats { return R.st }

// SetVariation switches the explore-mode gates of the map-order and address
// seams (C09 varies them per object; a replay is driven by the tape alone).
//
//go:norace
func SetVariation(mapPerm bool, addrPolicy int) {
	R.cfg.MapPerm = mapPerm
	R.cfg.AddrPolicy = addrPolicy
}

//go:norace
func Verdict() int { return R.verdict }

//go:norace
func event(kind int, a uint64) {
	s := &R.st
	e := uint64(kind)<<56 | uint64(R.cur)<<48 | (a & 0xffffffffffff)
	s.EventHash = (s.EventHash ^ e) * 0x100000001b3
	R.ring[R.ringN%ringSize] = e
	R.ringN++
}

// Note lets the harness fold its own events (operation boundaries, observation
// digests) into the run's event hash.
//
//go:norace
func Note(kind int, a uint64) { event(kind, a) }

// LastEvents returns up to n most recent events, oldest first.
//
//go:norace
func LastEvents(n int) []uint64 {
	if int64(n) > R.ringN {
		n = int(R.ringN)
	}
	if n > ringSize {
		n = ringSize
	}
	out := make([]uint64, n)
	for i := 0; i < n; i++ {
		out[i] = R.ring[(R.ringN-int64(n)+int64(i))%ringSize]
	}
	return out
}

//go:norace
func fatal(v int, detail string) {
	R.verdict = v
	f := R.cfg.OnFatal
	if f != nil {
		f(v, detail)
	}
	panic("simrt: fatal verdict without handler: " + detail)
}

// runnable fills list with runnable task ids (ascending) and returns the count.
//
//go:norace
func runnable(list *[MaxTasks]int, exclude int) int {
	n := 0
	for i := 0; i < R.ntasks; i++ {
		if i == exclude {
			continue
		}
		t := &R.tasks[i]
		if !t.done && t.blocked == nil {
			list[n] = i
			n++
		}
	}
	return n
}

var pollKey uintptr

// wakeProbers releases the tasks whose channel has become ready. The look reads
// the channel's state only (peek.go): no channel operation, no happens-before edge
// between the task that closed or fed the channel and the task that happens to look.
//
//go:norace
func wakeProbers() {
	if R.nprobers == 0 {
		return
	}
	for i := 0; i < R.ntasks; i++ {
		t := &R.tasks[i]
		if !t.probing || t.done || t.blocked != &pollKey {
			continue
		}
		for k := 0; k < t.npcases; k++ {
			if caseReady(&t.pcases[k]) {
				t.blocked = nil
				t.probing = false
				R.nprobers--
				break
			}
		}
	}
}

// pickOther chooses among the n runnable tasks other than the current one when
// the current one cannot continue (blocked or finished).
//
//go:norace
func pickOther(list *[MaxTasks]int, n int) int {
	if n == 1 {
		return list[0]
	}
	v := 0
	if !R.tape.S[KSched].Replay {
		switch R.cfg.Policy {
		case PolPCT:
			best := 0
			for i := 1; i < n; i++ {
				if R.tasks[list[i]].prio > R.tasks[list[best]].prio {
					best = i
				}
			}
			v = best
		default:
			v = int(R.tape.rawRand(KSched) % uint64(n))
		}
	}
	return list[R.tape.chooseWith(KSched, n, v)]
}

// decide is called at a yield point of a task that could continue. It returns
// the task that runs next (possibly the current one). Encoding of the recorded
// choice: 0 = stay, k>0 = the k-th other runnable task in id order.
//
//go:norace
func decide(site int) int {
	var others [MaxTasks]int
	n := runnable(&others, R.cur)
	if n == 0 {
		return R.cur
	}
	v := 0
	if !R.tape.S[KSched].Replay {
		switch R.cfg.Policy {
		case PolRandom:
			v = int(R.tape.rawRand(KSched) % uint64(n+1))
		case PolSticky:
			if int(R.tape.rawRand(KSched)%10000) < R.cfg.SwitchPct {
				v = 1 + int(R.tape.rawRand(KSched)%uint64(n))
			}
		case PolTargeted:
			p := R.cfg.SwitchPct / 4
			if site == YPoolPut || site == YPoolGet || site == YPoolGot || site == YOnceEnter || site == YAtomic {
				p = 5000
			}
			if int(R.tape.rawRand(KSched)%10000) < p {
				v = 1 + int(R.tape.rawRand(KSched)%uint64(n))
			}
		case PolPCT:
			// priority change points
			for i := 0; i < R.npct; i++ {
				if R.pctChange[i] == R.st.Steps {
					R.tasks[R.cur].prio = -int(R.st.Steps) - 1
				}
			}
			best := -1
			for i := 0; i < n; i++ {
				if R.tasks[others[i]].prio > R.tasks[R.cur].prio && (best < 0 || R.tasks[others[i]].prio > R.tasks[others[best]].prio) {
					best = i
				}
			}
			if best >= 0 {
				v = 1 + best
			}
		}
	}
	if !R.tape.S[KSched].Replay && R.cfg.Policy != PolRandom {
		// fairness valve: a policy that would keep one task running for ever although
		// others could run (PCT with a spinning top-priority task, a sticky policy that
		// never switches) lets somebody else in after 50 000 decisions in a row - Go's
		// scheduler is fair in the long run, and a spin-wait that terminates under it
		// must terminate here
		if v == 0 {
			R.stayRun++
			if R.stayRun > 50000 {
				R.stayRun = 0
				v = 1 + int(R.tape.rawRand(KSched)%uint64(n))
				R.tasks[R.cur].prio = -int(R.st.Steps) - 1
			}
		} else {
			R.stayRun = 0
		}
	}
	c := R.tape.chooseWith(KSched, n+1, v)
	if c == 0 {
		return R.cur
	}
	return others[c-1]
}

//go:norace
func switchTo(me, n int) {
	R.cur = n
	R.st.Switches++
	raceOff()
	R.tasks[n].wake <- struct{}{}
	<-R.tasks[me].wake
	raceOn()
}

//go:norace
func step() {
	R.idleFires = 0
	stepCount()
}

// idleFire counts a timer fired because no task could run: a ticker that keeps
// time moving while everybody waits for something else is a deadlock.
//
//go:norace
func idleFire() {
	R.idleFires++
	if R.idleFires > 100000 {
		fatal(VDeadlock, "all live tasks are blocked (only a ticker keeps firing)")
	}
	stepCount()
}

//go:norace
func stepCount() {
	R.st.Steps++
	if R.st.Steps > int64(R.cfg.StepCap) {
		fatal(VStepCap, "step cap exceeded")
	}
}

// Yield is a scheduling point of the current task.
//
//go:norace
func Yield(site int, obj uint64) {
	if !R.active || R.quiet != 0 {
		return
	}
	step()
	R.st.Yields[site]++
	event(site, obj)
	if timersPending() {
		stall()
		fireDue()
	}
	wakeProbers()
	me := R.cur
	n := decide(site)
	if n != me {
		switchTo(me, n)
	}
}

// YieldAway is a scheduling point at which the current task gives way: if anybody
// else can run, somebody else does (runtime.Gosched, time.Sleep). Under PCT the task
// also falls below every other priority, as a yielding thread does in that scheme.
//
//go:norace
func YieldAway(site int) {
	if !R.active || R.quiet != 0 {
		return
	}
	step()
	R.st.Yields[site]++
	event(site, 1)
	if timersPending() {
		stall()
		fireDue()
	}
	wakeProbers()
	me := R.cur
	var list [MaxTasks]int
	n := runnable(&list, me)
	if n == 0 {
		return
	}
	R.tasks[me].prio = -int(R.st.Steps) - 1
	R.stayRun = 0
	switchTo(me, pickOther(&list, n))
}

// Block parks the current task until Unblock(key); the caller re-checks its
// condition in a loop.
//
//go:norace
func Block(key *uintptr) {
	if R.quiet != 0 {
		fatal(VHarnessBug, "harness oracle touched a busy primitive")
	}
	step()
	R.st.Blocks++
	event(YBlock, 0)
	me := R.cur
	R.tasks[me].blocked = key
	if timersPending() {
		fireDue()
	}
	wakeProbers()
	var list [MaxTasks]int
	n := runnable(&list, me)
	for n == 0 && R.tasks[me].blocked != nil {
		if usersDone() {
			// a task of the library blocks and nothing else is left to run: the near
			// future happens, then the run is over and this task is abandoned with the rest
			if drainTimer() && fireNext() {
				wakeProbers()
				n = runnable(&list, me)
				continue
			}
			wake := R.tasks[me].wake
			endRun()
			raceOff()
			<-wake // never: the goroutine stays parked, as at process exit
		}
		// nobody can run: time passes until the next timer fires
		if !fireNext() {
			if R.nprobers > 0 {
				fatal(VDeadlock, "all live tasks are blocked or wait for a channel that no task of the simulation will feed or close")
			}
			fatal(VDeadlock, "all live tasks are blocked")
		}
		wakeProbers()
		n = runnable(&list, me)
	}
	if R.tasks[me].blocked == nil {
		return // a timer that was due released this very task
	}
	switchTo(me, pickOther(&list, n))
}

// pollWait parks the current task until one of cases - at least one of them on a
// channel the simulator does not own - is ready. Such a channel changes only through
// what tasks of the simulation do (cancel functions, simulated timers), and every
// scheduling point of every task looks; when nobody can run, time passes until the
// next timer fires, and with no timer left the run is a deadlock.
func pollWait(cases ...SelCase) {
	if quietNow() {
		fatal(VHarnessBug, "harness oracle waits for a channel")
	}
	setProbe(cases)
	Block(&pollKey)
	clearProbe()
}

//go:norace
func setProbe(cases []SelCase) {
	t := &R.tasks[R.cur]
	R.st.Polls++
	t.npcases = 0
	for _, c := range cases {
		if t.npcases < len(t.pcases) {
			t.pcases[t.npcases] = c
			t.npcases++
		}
	}
	t.probing = true
	R.nprobers++
}

//go:norace
func clearProbe() {
	t := &R.tasks[R.cur]
	if t.probing { // released by something else than a successful look
		t.probing = false
		R.nprobers--
	}
	for k := 0; k < t.npcases; k++ {
		t.pcases[k] = SelCase{}
	}
	t.npcases = 0
}

//go:norace
func Unblock(key *uintptr) {
	if !R.active {
		return
	}
	for i := 0; i < R.ntasks; i++ {
		if R.tasks[i].blocked == key {
			R.tasks[i].blocked = nil
		}
	}
}

//go:norace
func usersDone() bool {
	for i := 0; i < R.nuser; i++ {
		if !R.tasks[i].done {
			return false
		}
	}
	return true
}

// The end of a run. A run is over when the tasks the harness started have finished
// and no task the library started itself can take a step - as a Go program is over
// when main returns. Before that, what the library has set in motion for the near
// future happens: timers due within ten simulated minutes fire (at most 256 of
// them), so that a delayed effect - a timer that recycles a buffer the caller still
// holds - shows before the results are looked at again. Tasks of the library that
// are still blocked then (a janitor waiting for its next tick, a worker waiting for
// work) are abandoned like goroutines at process exit: not a verdict - none of the
// properties is about goroutine leaks. A task of the HARNESS that is blocked while
// nobody can run is a call that never returns: the deadlock verdict.
const drainHorizon = int64(10 * 60 * 1e9)
const drainMaxFires = 256

//go:norace
func drainTimer() bool {
	if R.drainFires == 0 {
		R.drainUntil = clockNs + drainHorizon
	}
	i := earliest()
	if i < 0 || R.drainFires >= drainMaxFires || timerList[i].when > R.drainUntil {
		return false
	}
	R.drainFires++
	return true
}

// endRun abandons the library's blocked tasks and hands control back to Run. Called
// by the task that found nothing left to run; me < 0: it has finished itself.
//
//go:norace
func endRun() {
	for i := R.nuser; i < R.ntasks; i++ {
		if !R.tasks[i].done {
			R.tasks[i].done = true
			R.tasks[i].blocked = nil
			R.st.Abandoned++
			R.join.Done()
		}
	}
	R.nprobers = 0
	raceOff()
	R.back <- struct{}{}
	raceOn()
}

//go:norace
func taskExit(me int) {
	R.tasks[me].done = true
	event(YTaskEnd, 0)
	wakeProbers()
	var list [MaxTasks]int
	n := runnable(&list, me)
	for n == 0 {
		if !usersDone() {
			if fireNext() {
				wakeProbers()
				n = runnable(&list, me)
				continue
			}
			fatal(VDeadlock, "remaining tasks are blocked on a primitive nobody will release")
		}
		if drainTimer() && fireNext() {
			wakeProbers()
			n = runnable(&list, me)
			continue
		}
		endRun()
		return
	}
	nx := pickOther(&list, n)
	R.cur = nx
	raceOff()
	R.tasks[nx].wake <- struct{}{}
	raceOn()
}

// Begin resets the runtime for one run. Called from the harness goroutine
// while no task exists.
func Begin(cfg Config) {
	if cfg.StepCap == 0 {
		cfg.StepCap = 2000000
	}
	R.cfg = cfg
	R.tape = cfg.Tape
	R.st = Stats{EventHash: 0xcbf29ce484222325}
	R.verdict = VNone
	R.ringN = 0
	R.quiet = 0
	R.fpArmed = false
	R.fpFiredAt = -1
	for i := range R.fpReach {
		R.fpReach[i] = 0
		R.fpYield[i] = false
	}
	if cfg.FPYieldPct > 0 {
		for i := 0; i < NSites() && i < maxSites; i++ {
			// a per-run subset of sites; drawn from the fault stream so replay has it
			R.fpYield[i] = cfg.Tape.choose(KFault, 100) < cfg.FPYieldPct
		}
	}
	if !cfg.KeepPools {
		resetPools()
	}
	resetAddrs()
	resetChans()
	resetClock()
	resetTimers()
	R.nprobers = 0
	R.stayRun = 0
	R.idleFires = 0
	R.cpus = 0
	resetRand()
}

// Run executes fns as simulated tasks until all have finished and returns.
// A deadlock or step-cap verdict does not return: Config.OnFatal is called.
func Run(fns []func()) {
	n := len(fns)
	if n > MaxTasks {
		panic("simrt: too many tasks")
	}
	R.ntasks = n
	R.nuser = n
	R.back = make(chan struct{})
	R.npct = 0
	R.drainFires = 0
	for i := 0; i < n; i++ {
		R.tasks[i] = task{wake: make(chan struct{}), prio: 0}
	}
	if !R.tape.S[KSched].Replay && R.cfg.Policy == PolPCT {
		// random distinct initial priorities, change points spread over PCTSpan steps
		for i := 0; i < n; i++ {
			R.tasks[i].prio = int(R.tape.rawRand(KSched)%1000) + 1
		}
		span := R.cfg.PCTSpan
		if span <= 0 {
			span = 2000
		}
		for i := 0; i < R.cfg.PCTDepth && i < len(R.pctChange); i++ {
			R.pctChange[i] = int64(R.tape.rawRand(KSched) % uint64(span))
			R.npct++
		}
	}
	join := &stdsync.WaitGroup{}
	R.join = join
	join.Add(n)
	for i, f := range fns {
		i, f := i, f
		go func() {
			raceOff()
			<-R.tasks[i].wake
			raceOn()
			f()
			join.Done()
			taskExit(i)
		}()
	}
	R.active = true
	var list [MaxTasks]int
	k := runnable(&list, -1)
	first := pickOther(&list, k)
	R.cur = first
	back := R.back // a later Run (after a fatal verdict, in tests) must not have its signal taken by this one
	raceOff()
	R.tasks[first].wake <- struct{}{}
	<-back
	raceOn()
	R.active = false
	join.Wait()
}

// Go starts f the way a go statement would: as a new simulated task while the
// simulator runs (the scheduler then owns its interleaving with every other
// task), as a plain goroutine otherwise. simprep rewrites the library's go
// statements into calls of Go.
func Go(f func()) {
	if !Running() || quietNow() {
		go f()
		return
	}
	if !spawn(f) {
		fatal(VHarnessBug, "more than MaxTasks simulated tasks")
	}
	Yield(YGo, 0)
}

// spawn makes f a new simulated task (runnable, not yet running).
func spawn(f func()) bool {
	id := spawnSlot()
	if id < 0 {
		return false
	}
	join := R.join
	join.Add(1)
	go func() {
		raceOff()
		<-R.tasks[id].wake
		raceOn()
		f()
		join.Done()
		taskExit(id)
	}()
	return true
}

//go:norace
func quietNow() bool { return R.quiet != 0 }

//go:norace
func spawnSlot() int {
	id := -1
	for i := R.nuser; i < R.ntasks; i++ {
		if R.tasks[i].done {
			id = i // the slot of a spawned task that has finished is reused
			break
		}
	}
	if id >= 0 {
		R.tasks[id] = task{wake: make(chan struct{}), prio: R.tasks[R.cur].prio - 1}
		R.st.Spawned++
		return id
	}
	if R.ntasks >= MaxTasks {
		return -1
	}
	id = R.ntasks
	R.tasks[id] = task{wake: make(chan struct{}), prio: R.tasks[R.cur].prio - 1}
	R.ntasks++
	R.st.Spawned++
	return id
}
