package simrt

import (
	stdsync "sync"
	"sync/atomic"
	"unsafe"
)

// Channel seam. simprep rewrites the library's channel operations (send,
// receive, comma-ok receive, range, close) into these helpers. While the
// simulator runs, values travel through a simulator-owned queue per channel and
// a task that cannot proceed parks in the scheduler, so the interleaving of
// senders and receivers is a tape decision and a deadlock is detected instead of
// hanging. Otherwise the helpers perform the real channel operation.
//
// The simulator owns the channels the library makes (simprep wraps every
// `make(chan …)` of the library in RegChan) and those of simulated timers. Any
// other channel - in practice the Done channel of a context - is operated with the
// real, non-blocking channel operations, and a task that finds it not ready parks
// with a look that every scheduling point of every task repeats for it (pollWait):
// such a channel changes only through what the simulated tasks themselves do (a
// cancel function, a simulated timer), so this stays a function of the tape. select is simulated (see the end of this file).
//
// Limits (stated): a channel that goroutines outside the simulation feed (os/signal,
// a real network) would make a run irreproducible; the library has none, and the
// determinism self-test would show one.

const maxChans = 128
const chanQueueCap = 256

type chanItem struct {
	v     any
	tok   *uint32 // sender -> receiver edge
	taken *uint32 // receiver -> sender edge (rendezvous); nil for buffered sends
}

type chanState struct {
	id     unsafe.Pointer
	q      []chanItem
	closed bool
	ctok   uint32 // close -> receive edge
	key    uintptr
	rwait  int // receivers parked on this channel (plain receives and select clauses)
}

// The table holds pointers, so that a *chanState stays valid when the table grows
// (a run may create thousands of channels: one per call of a function that uses one).
var chans = make([]*chanState, maxChans)
var nchans int

// channels made outside a run (package-level variables) stay the simulator's in every run
var permChans []unsafe.Pointer
var permMu stdsync.Mutex

// RegChan makes the channel one the simulator owns.
func RegChan[C any](ch C) C {
	id := chanID(ch)
	if id == nil {
		return ch
	}
	if !Running() {
		permMu.Lock()
		if len(permChans) < 4096 {
			permChans = append(permChans, id)
		}
		permMu.Unlock()
		return ch
	}
	if !quietNow() {
		chanLookup(id)
	}
	return ch
}

//go:norace
func chanOwned(id unsafe.Pointer) bool {
	for i := nchans - 1; i >= 0; i-- {
		if chans[i].id == id {
			return true
		}
	}
	for _, p := range permChans {
		if p == id {
			return true
		}
	}
	return false
}

//go:norace
func resetChans() {
	for i := 0; i < nchans; i++ {
		st := chans[i]
		for j := range st.q {
			st.q[j] = chanItem{}
		}
		st.q = st.q[:0]
		st.id = nil
		st.closed = false
		st.rwait = 0
	}
	nchans = 0
}

//go:norace
func chanLookup(id unsafe.Pointer) *chanState {
	for i := nchans - 1; i >= 0; i-- { // the youngest channels are the likeliest
		if chans[i].id == id {
			return chans[i]
		}
	}
	if nchans >= len(chans) {
		bigger := make([]*chanState, 2*len(chans))
		for i := 0; i < nchans; i++ {
			bigger[i] = chans[i]
		}
		chans = bigger
	}
	if chans[nchans] == nil {
		chans[nchans] = &chanState{}
	}
	st := chans[nchans]
	nchans++
	st.id = id
	st.closed = false
	st.rwait = 0
	if st.q == nil {
		st.q = make([]chanItem, 0, chanQueueCap)
	}
	st.q = st.q[:0]
	return st
}

//go:norace
func chanEnqueue(st *chanState, it chanItem) {
	if len(st.q) >= cap(st.q) {
		fatal(VHarnessBug, "simulated channel queue overflow")
	}
	st.q = st.q[:len(st.q)+1]
	st.q[len(st.q)-1] = it
	R.st.ChanOps++
}

//go:norace
func chanDequeue(st *chanState) (chanItem, bool) {
	n := len(st.q)
	if n == 0 {
		return chanItem{}, false
	}
	it := st.q[0]
	for j := 0; j+1 < n; j++ {
		st.q[j] = st.q[j+1]
	}
	st.q[n-1] = chanItem{}
	st.q = st.q[:n-1]
	R.st.ChanOps++
	return it, true
}

//go:norace
func chanLen(st *chanState) int { return len(st.q) }

//go:norace
func chanClosed(st *chanState) bool { return st.closed }

//go:norace
func chanSetClosed(st *chanState) { st.closed = true }

//go:norace
func chanKey(st *chanState) *uintptr { return &st.key }

//go:norace
func chanCtok(st *chanState) *uint32 { return &st.ctok }

type plainError string

func (e plainError) Error() string { return string(e) }
func (e plainError) RuntimeError() {}

//go:norace
func chanAdjWait(st *chanState, d int) { st.rwait += d }

//go:norace
func chanWaiting(st *chanState) int { return st.rwait }

// chanChanged wakes the tasks parked on the channel and those parked in a select.
func chanChanged(st *chanState) {
	Unblock(chanKey(st))
	Unblock(&selKey)
}

var selKey uintptr

func simSend(id unsafe.Pointer, capacity int, v any) {
	Yield(YChanSend, 0)
	simSendNow(id, capacity, v)
}

func simSendNow(id unsafe.Pointer, capacity int, v any) {
	if id == nil {
		var never uintptr
		for {
			Block(&never) // send on a nil channel blocks forever
		}
	}
	st := chanLookup(id)
	if chanClosed(st) {
		panic(plainError("send on closed channel"))
	}
	tok := new(uint32)
	atomic.AddUint32(tok, 1)
	if capacity > 0 {
		for chanLen(st) >= capacity {
			Block(chanKey(st))
			if chanClosed(st) {
				panic(plainError("send on closed channel"))
			}
		}
		chanEnqueue(st, chanItem{v: v, tok: tok})
		chanChanged(st)
		return
	}
	taken := new(uint32)
	chanEnqueue(st, chanItem{v: v, tok: tok, taken: taken})
	chanChanged(st)
	for atomic.LoadUint32(taken) == 0 {
		Block(chanKey(st))
	}
}

func simRecv(id unsafe.Pointer) (any, bool) {
	Yield(YChanRecv, 0)
	return simRecvNow(id)
}

func simRecvNow(id unsafe.Pointer) (any, bool) {
	if id == nil {
		var never uintptr
		for {
			Block(&never)
		}
	}
	st := chanLookup(id)
	for {
		if it, ok := chanDequeue(st); ok {
			atomic.LoadUint32(it.tok)
			if it.taken != nil {
				atomic.StoreUint32(it.taken, 1)
			}
			chanChanged(st)
			return it.v, true
		}
		if chanClosed(st) {
			atomic.LoadUint32(chanCtok(st))
			return nil, false
		}
		chanAdjWait(st, +1)
		Unblock(&selKey) // a select with a send clause on this channel may proceed now
		Block(chanKey(st))
		chanAdjWait(st, -1)
	}
}

func simClose(id unsafe.Pointer) {
	Yield(YChanSend, 0)
	if id == nil {
		panic(plainError("close of nil channel"))
	}
	st := chanLookup(id)
	if chanClosed(st) {
		panic(plainError("close of closed channel"))
	}
	atomic.AddUint32(chanCtok(st), 1)
	chanSetClosed(st)
	chanChanged(st)
}

func chanID[C any](ch C) unsafe.Pointer { return *(*unsafe.Pointer)(unsafe.Pointer(&ch)) }

func simulated() bool { return Running() && !quietNow() }

// ChanSend is `ch <- v`.
func ChanSend[C ~chan T | ~chan<- T, T any](ch C, v T) {
	if !simulated() {
		ch <- v
		return
	}
	if !chanOwned(chanID(ch)) && chanID(ch) != nil {
		Yield(YChanSend, 0)
		foreignSend[C, T](ch, v)
		return
	}
	simSend(chanID(ch), cap(ch), v)
}

func foreignSend[C ~chan T | ~chan<- T, T any](ch C, v T) {
	for {
		select {
		case ch <- v:
			return
		default:
		}
		pollWait(SelCase{id: chanID(ch), send: true})
	}
}

func foreignRecv[C ~chan T | ~<-chan T, T any](ch C) (T, bool) {
	for {
		select {
		case v, ok := <-ch:
			return v, ok
		default:
		}
		pollWait(SelCase{id: chanID(ch)})
	}
}

// ChanRecv is `<-ch`.
func ChanRecv[C ~chan T | ~<-chan T, T any](ch C) T {
	v, _ := ChanRecv2[C, T](ch)
	return v
}

// ChanRecv2 is `v, ok := <-ch`.
func ChanRecv2[C ~chan T | ~<-chan T, T any](ch C) (T, bool) {
	if !simulated() {
		v, ok := <-ch
		return v, ok
	}
	if !chanOwned(chanID(ch)) && chanID(ch) != nil {
		Yield(YChanRecv, 0)
		return foreignRecv[C, T](ch)
	}
	x, ok := simRecv(chanID(ch))
	var z T
	if !ok || x == nil {
		return z, ok
	}
	return x.(T), true
}

// ChanLen is `len(ch)`.
func ChanLen[C any](ch C) int {
	id := chanID(ch)
	if id == nil {
		return 0
	}
	if simulated() && chanOwned(id) {
		return ownedLen(id)
	}
	return peekLen(id)
}

//go:norace
func ownedLen(id unsafe.Pointer) int {
	st := chanLookup(id)
	n := 0
	for i := range st.q {
		if st.q[i].taken == nil { // a rendezvous item is a parked sender, not a buffered value
			n++
		}
	}
	return n
}

// ChanClose is `close(ch)`.
func ChanClose[C ~chan T | ~chan<- T, T any](ch C) {
	if !simulated() {
		close(ch)
		return
	}
	if !chanOwned(chanID(ch)) && chanID(ch) != nil {
		Yield(YChanSend, 0)
		close(ch)
		return
	}
	simClose(chanID(ch))
}

// ---- select -----------------------------------------------------------------------
//
// simprep rewrites
//
//	select { case v := <-a: A; case b <- x: B; default: D }
//
// into
//
//	{ __c0 := a; __c1 := b; __v1 := x
//	  switch simrt.SelectReady(true, simrt.RecvCase(__c0), simrt.SendCase(__c1)) {
//	  case 0: v := simrt.ChanRecvNow(__c0); A
//	  case 1: simrt.ChanSendNow(__c1, __v1); B
//	  default: D } }
//
// SelectReady decides from the simulator-owned channel state which clause proceeds:
// a tape-chosen one among the ready clauses (Go chooses pseudo-randomly), the
// default clause if none is ready, otherwise the task parks until one is. It returns
// with the baton held, and the chosen operation is carried out at once by the ...Now
// function, before any other task can run. Code that selects is only ever executed
// under the simulator (the reference processes run under it too).

type SelCase struct {
	id   unsafe.Pointer
	cap  int
	send bool
}

func RecvCase[C ~chan T | ~<-chan T, T any](ch C) SelCase { return SelCase{id: chanID(ch)} }
func SendCase[C ~chan T | ~chan<- T, T any](ch C) SelCase {
	return SelCase{id: chanID(ch), cap: cap(ch), send: true}
}

// caseReady: would the clause proceed? For a channel the simulator does not own the
// answer is read off the channel itself (peek.go); only tasks of the simulation
// operate it, one at a time, so looking disturbs nothing: a buffered value stays
// until the task takes it, and a receive from a closed, empty channel consumes
// nothing. (A send on such a channel proceeds only if it is buffered and not full:
// no task ever blocks in a real receive.)
//
//go:norace
func caseReady(c *SelCase) bool {
	if c.id == nil {
		return false
	}
	if chanOwned(c.id) {
		return selReady(*c)
	}
	if c.send {
		return peekClosed(c.id) || peekLen(c.id) < peekCap(c.id)
	}
	return peekLen(c.id) > 0 || peekClosed(c.id)
}

//go:norace
func selReady(c SelCase) bool {
	if c.id == nil {
		return false // a nil channel never proceeds
	}
	st := chanLookup(c.id)
	if c.send {
		if st.closed {
			return true // proceeds, and panics as Go does
		}
		if c.cap > 0 {
			return len(st.q) < c.cap
		}
		return st.rwait > len(st.q) // a receiver is parked and not yet served
	}
	return len(st.q) > 0 || st.closed
}

//go:norace
func selAdjWait(c SelCase, d int) {
	if c.id != nil && !c.send {
		chanLookup(c.id).rwait += d
	}
}

//go:norace
func selChoice(n int) int { return R.tape.choose(KSched, n) }

// SelectReady returns the index of the clause that proceeds, or -1 for default.
func SelectReady(hasDefault bool, cases ...SelCase) int {
	if !simulated() {
		panic(plainError("simrt: select outside a simulated run"))
	}
	Yield(YChanRecv, 0)
	registered := false
	var foreign [16]bool
	anyForeign := false
	for i, c := range cases {
		if i < len(foreign) && c.id != nil && !chanOwned(c.id) {
			foreign[i], anyForeign = true, true
		}
	}
	for {
		var ready [16]int
		n := 0
		for i, c := range cases {
			if n >= len(ready) || i >= len(foreign) {
				break
			}
			if foreign[i] {
				if caseReady(&cases[i]) {
					ready[n] = i
					n++
				}
				continue
			}
			if selReady(c) {
				ready[n] = i
				n++
			}
		}
		if n > 0 || hasDefault {
			if registered {
				for i, c := range cases {
					if i < len(foreign) && !foreign[i] {
						selAdjWait(c, -1)
					}
				}
			}
			if n > 0 {
				return ready[selChoice(n)]
			}
			return -1
		}
		// Park as a waiting receiver on every receive clause's channel, so that a
		// sender on a rendezvous channel (plain or selecting) can proceed. The
		// registration is made once and announced once: a selector that is woken
		// and finds nothing ready parks again silently (two parked selectors waking
		// each other in turn would never end - met with benign patch ben9_3).
		if !registered {
			registered = true
			for i, c := range cases {
				if i < len(foreign) && !foreign[i] {
					selAdjWait(c, +1)
				}
			}
			Unblock(&selKey)
		}
		if anyForeign {
			// a channel that is not the simulator's announces nothing: wait with a look
			pollWait(cases...)
			continue
		}
		Block(&selKey)
	}
}

// ChanRecvNow, ChanRecv2Now and ChanSendNow carry out the clause SelectReady chose.
func ChanRecvNow[C ~chan T | ~<-chan T, T any](ch C) T {
	v, _ := ChanRecv2Now[C, T](ch)
	return v
}

func ChanRecv2Now[C ~chan T | ~<-chan T, T any](ch C) (T, bool) {
	if !chanOwned(chanID(ch)) && chanID(ch) != nil {
		return foreignRecv[C, T](ch)
	}
	x, ok := simRecvNow(chanID(ch))
	var z T
	if !ok || x == nil {
		return z, ok
	}
	return x.(T), true
}

func ChanSendNow[C ~chan T | ~chan<- T, T any](ch C, v T) {
	if !chanOwned(chanID(ch)) && chanID(ch) != nil {
		foreignSend[C, T](ch, v)
		return
	}
	simSendNow(chanID(ch), cap(ch), v)
}
