package simrt

import (
	"sync/atomic"
	"unsafe"
)

// Channel seam. simprep rewrites the library's channel operations (send,
// receive, comma-ok receive, range, close) into these helpers. While the
// simulator runs, values travel through a simulator-owned queue per channel and
// a task that cannot proceed parks in the scheduler, so the interleaving of
// senders and receivers is a tape decision and a deadlock is detected instead of
// hanging. Otherwise the helpers perform the real channel operation.
//
// Limits (stated): select statements are not supported (simprep refuses, the
// check exits 2); channels fed by the standard library (timers, contexts) are
// not simulated.

const maxChans = 128
const chanQueueCap = 256

type chanItem struct {
	v     any
	tok   *uint32 // sender -> receiver edge
	taken *uint32 // receiver -> sender edge (rendezvous); nil for buffered sends
}

type chanState struct {
	id     unsafe.Pointer
	q      []chanItem
	closed bool
	ctok   uint32 // close -> receive edge
	key    uintptr
}

var chans [maxChans]chanState
var nchans int

//go:norace
func resetChans() {
	for i := 0; i < nchans; i++ {
		for j := range chans[i].q {
			chans[i].q[j] = chanItem{}
		}
		chans[i].q = chans[i].q[:0]
		chans[i].id = nil
		chans[i].closed = false
	}
	nchans = 0
}

//go:norace
func chanLookup(id unsafe.Pointer) *chanState {
	for i := 0; i < nchans; i++ {
		if chans[i].id == id {
			return &chans[i]
		}
	}
	if nchans >= maxChans {
		fatal(VHarnessBug, "more than maxChans simulated channels in one run")
	}
	st := &chans[nchans]
	nchans++
	st.id = id
	st.closed = false
	if st.q == nil {
		st.q = make([]chanItem, 0, chanQueueCap)
	}
	st.q = st.q[:0]
	return st
}

//go:norace
func chanEnqueue(st *chanState, it chanItem) {
	if len(st.q) >= cap(st.q) {
		fatal(VHarnessBug, "simulated channel queue overflow")
	}
	st.q = st.q[:len(st.q)+1]
	st.q[len(st.q)-1] = it
	R.st.ChanOps++
}

//go:norace
func chanDequeue(st *chanState) (chanItem, bool) {
	n := len(st.q)
	if n == 0 {
		return chanItem{}, false
	}
	it := st.q[0]
	for j := 0; j+1 < n; j++ {
		st.q[j] = st.q[j+1]
	}
	st.q[n-1] = chanItem{}
	st.q = st.q[:n-1]
	R.st.ChanOps++
	return it, true
}

//go:norace
func chanLen(st *chanState) int { return len(st.q) }

//go:norace
func chanClosed(st *chanState) bool { return st.closed }

//go:norace
func chanSetClosed(st *chanState) { st.closed = true }

//go:norace
func chanKey(st *chanState) *uintptr { return &st.key }

//go:norace
func chanCtok(st *chanState) *uint32 { return &st.ctok }

type plainError string

func (e plainError) Error() string { return string(e) }
func (e plainError) RuntimeError() {}

func simSend(id unsafe.Pointer, capacity int, v any) {
	Yield(YChanSend, 0)
	if id == nil {
		var never uintptr
		for {
			Block(&never) // send on a nil channel blocks forever
		}
	}
	st := chanLookup(id)
	if chanClosed(st) {
		panic(plainError("send on closed channel"))
	}
	tok := new(uint32)
	atomic.AddUint32(tok, 1)
	if capacity > 0 {
		for chanLen(st) >= capacity {
			Block(chanKey(st))
			if chanClosed(st) {
				panic(plainError("send on closed channel"))
			}
		}
		chanEnqueue(st, chanItem{v: v, tok: tok})
		Unblock(chanKey(st))
		return
	}
	taken := new(uint32)
	chanEnqueue(st, chanItem{v: v, tok: tok, taken: taken})
	Unblock(chanKey(st))
	for atomic.LoadUint32(taken) == 0 {
		Block(chanKey(st))
	}
}

func simRecv(id unsafe.Pointer) (any, bool) {
	Yield(YChanRecv, 0)
	if id == nil {
		var never uintptr
		for {
			Block(&never)
		}
	}
	st := chanLookup(id)
	for {
		if it, ok := chanDequeue(st); ok {
			atomic.LoadUint32(it.tok)
			if it.taken != nil {
				atomic.StoreUint32(it.taken, 1)
			}
			Unblock(chanKey(st))
			return it.v, true
		}
		if chanClosed(st) {
			atomic.LoadUint32(chanCtok(st))
			return nil, false
		}
		Block(chanKey(st))
	}
}

func simClose(id unsafe.Pointer) {
	Yield(YChanSend, 0)
	if id == nil {
		panic(plainError("close of nil channel"))
	}
	st := chanLookup(id)
	if chanClosed(st) {
		panic(plainError("close of closed channel"))
	}
	atomic.AddUint32(chanCtok(st), 1)
	chanSetClosed(st)
	Unblock(chanKey(st))
}

func chanID[C any](ch C) unsafe.Pointer { return *(*unsafe.Pointer)(unsafe.Pointer(&ch)) }

func simulated() bool { return Running() && !quietNow() }

// ChanSend is `ch <- v`.
func ChanSend[C ~chan T | ~chan<- T, T any](ch C, v T) {
	if !simulated() {
		ch <- v
		return
	}
	simSend(chanID(ch), cap(ch), v)
}

// ChanRecv is `<-ch`.
func ChanRecv[C ~chan T | ~<-chan T, T any](ch C) T {
	v, _ := ChanRecv2[C, T](ch)
	return v
}

// ChanRecv2 is `v, ok := <-ch`.
func ChanRecv2[C ~chan T | ~<-chan T, T any](ch C) (T, bool) {
	if !simulated() {
		v, ok := <-ch
		return v, ok
	}
	x, ok := simRecv(chanID(ch))
	var z T
	if !ok || x == nil {
		return z, ok
	}
	return x.(T), true
}

// ChanClose is `close(ch)`.
func ChanClose[C ~chan T | ~chan<- T, T any](ch C) {
	if !simulated() {
		close(ch)
		return
	}
	simClose(chanID(ch))
}
