// simprep instruments a scratch copy of the library for simulation
// (DESIGN.md §2.1). It type-checks the copy and rewrites, keyed on *types*
// rather than on file names:
//
//   - every import of std "sync" becomes an import (named sync) of <module>/simrt;
//   - every range over a map becomes a range over simrt.Keys(m);
//   - every fmt.{Sprintf,Errorf,Fprintf,Printf,Appendf} call whose constant
//     format contains %p goes through simrt;
//   - simrt.FP(id) is inserted at the entry of every function, and a site table
//     is generated into simrt/sites_gen.go.
//
// usage: simprep <dir-of-scratch-copy>
// The simrt package must already have been copied to <dir>/simrt.
package main

import (
	"bytes"
	"fmt"
	"go/ast"
	"go/constant"
	"go/format"
	"go/token"
	"go/types"
	"os"
	"path/filepath"
	"sort"
	"strconv"
	"strings"

	"golang.org/x/tools/go/ast/astutil"
	"golang.org/x/tools/go/packages"
)

type site struct {
	pkg, fn, pos string
	hasPanic     bool
	inScope      bool
}

// Packages whose functions run inside the public API's recover scope and use
// panic as their error mechanism (suffixes of the module path).
var scopeSuffixes = []string{
	"/notations/jschema/scanner",
	"/notations/jschema/loader",
	"/notations/jschema/checker",
	"/notations/jschema/ischema",
	"/notations/jschema/ischema/constraint",
	"/formats/json",
}

func die(f string, a ...any) {
	fmt.Fprintf(os.Stderr, "simprep: "+f+"\n", a...)
	os.Exit(2)
}

func main() {
	if len(os.Args) != 2 {
		die("usage: simprep <dir>")
	}
	dir, err := filepath.Abs(os.Args[1])
	if err != nil {
		die("%v", err)
	}
	cfg := &packages.Config{Mode: packages.LoadAllSyntax | packages.NeedModule, Dir: dir, Tests: false}
	pkgs, err := packages.Load(cfg, "./...")
	if err != nil {
		die("load: %v", err)
	}
	if len(pkgs) == 0 {
		die("no packages")
	}
	sort.Slice(pkgs, func(i, j int) bool { return pkgs[i].PkgPath < pkgs[j].PkgPath })
	module := ""
	for _, p := range pkgs {
		if p.Module != nil && p.Module.Main {
			module = p.Module.Path
			break
		}
	}
	if module == "" {
		die("cannot determine module path")
	}
	simrtPath := module + "/simrt"
	perLoopVars := true // Go < 1.22 semantics: one k, v per loop
	for _, p := range pkgs {
		if p.Module != nil && p.Module.Main && p.Module.GoVersion != "" {
			parts := strings.Split(p.Module.GoVersion, ".")
			if len(parts) >= 2 {
				minor, _ := strconv.Atoi(parts[1])
				if parts[0] != "1" || minor >= 22 {
					perLoopVars = false
				}
			}
		}
	}

	var sites []site
	nImports, nRanges, nFmt, nFP, nGo, nChan := 0, 0, 0, 0, 0, 0
	nClock := 0
	timeFiles := map[*ast.File]bool{}
	runtimeFiles := map[*ast.File]bool{}
	contextFiles := map[*ast.File]bool{}
	randFiles := map[*ast.File]string{}
	selBlocks := map[*ast.BlockStmt]*ast.SwitchStmt{}
	for _, p := range pkgs {
		if !strings.HasPrefix(p.PkgPath, module) || p.PkgPath == simrtPath || strings.HasPrefix(p.PkgPath, simrtPath+"/") {
			continue
		}
		if len(p.Errors) > 0 {
			die("type errors in %s: %v", p.PkgPath, p.Errors)
		}
		if p.Name == "main" {
			continue // generators and commands are not part of the library
		}
		inScope := false
		for _, s := range scopeSuffixes {
			if p.PkgPath == module+s {
				inScope = true
			}
		}
		for i, f := range p.Syntax {
			fname := p.CompiledGoFiles[i]
			if strings.HasSuffix(fname, "_test.go") {
				continue
			}
			changed := false
			needSimrt := false

			// 1. sync seam
			for _, imp := range f.Imports {
				if imp.Path.Value == `"sync/atomic"` {
					if imp.Name != nil && (imp.Name.Name == "_" || imp.Name.Name == ".") {
						die("%s: unsupported sync/atomic import form", fname)
					}
					imp.Path.Value = strconv.Quote(simrtPath + "/atomic")
					changed = true
					nImports++
				}
				if imp.Path.Value == `"sync"` {
					if imp.Name != nil && (imp.Name.Name == "_" || imp.Name.Name == ".") {
						die("%s: unsupported sync import form", fname)
					}
					imp.Path.Value = strconv.Quote(simrtPath)
					if imp.Name == nil {
						imp.Name = ast.NewIdent("sync")
					}
					changed = true
					nImports++
				}
			}

			// 2. map-order seam, 3. address seam
			isMapRange := func(n ast.Node) (*ast.RangeStmt, bool) {
				rs, ok := n.(*ast.RangeStmt)
				if !ok {
					return nil, false
				}
				t := p.TypesInfo.TypeOf(rs.X)
				if t == nil {
					return nil, false
				}
				_, ok = t.Underlying().(*types.Map)
				return rs, ok
			}
			isChanRange := func(n ast.Node) (*ast.RangeStmt, bool) {
				rs, ok := n.(*ast.RangeStmt)
				if !ok {
					return nil, false
				}
				t := p.TypesInfo.TypeOf(rs.X)
				if t == nil {
					return nil, false
				}
				_, ok = t.Underlying().(*types.Chan)
				return rs, ok
			}
			// post-order: inner statements are rewritten before the statement that contains them
			astutil.Apply(f, nil, func(c *astutil.Cursor) bool {
				switch n := c.Node().(type) {
				case *ast.SelectStmt:
					blk, sw := rewriteSelect(n, fname)
					selBlocks[blk] = sw
					c.Replace(blk)
					needSimrt, changed = true, true
					nChan++
					return true
				case *ast.GoStmt:
					c.Replace(rewriteGo(p.TypesInfo, n))
					needSimrt, changed = true, true
					nGo++
					return true
				case *ast.SendStmt:
					c.Replace(&ast.ExprStmt{X: &ast.CallExpr{
						Fun:  &ast.SelectorExpr{X: ast.NewIdent("__simrt"), Sel: ast.NewIdent("ChanSend")},
						Args: []ast.Expr{n.Chan, n.Value},
					}})
					needSimrt, changed = true, true
					nChan++
					return true
				case *ast.UnaryExpr:
					if n.Op != token.ARROW {
						return true
					}
					c.Replace(&ast.CallExpr{
						Fun:  &ast.SelectorExpr{X: ast.NewIdent("__simrt"), Sel: ast.NewIdent("ChanRecv")},
						Args: []ast.Expr{n.X},
					})
					needSimrt, changed = true, true
					nChan++
					return true
				case *ast.AssignStmt:
					// v, ok := <-ch  (the receive was already rewritten to ChanRecv)
					if len(n.Lhs) == 2 && len(n.Rhs) == 1 {
						fixRecv2(n.Rhs[0])
					}
					return true
				case *ast.ValueSpec:
					if len(n.Names) == 2 && len(n.Values) == 1 {
						fixRecv2(n.Values[0])
					}
					return true
				case *ast.LabeledStmt:
					if blk, ok := n.Stmt.(*ast.BlockStmt); ok && selBlocks[blk] != nil {
						// `L: select {…}`: the label has to stay on a statement `break L` may name
						blk.List[len(blk.List)-1] = &ast.LabeledStmt{Label: n.Label, Stmt: selBlocks[blk]}
						c.Replace(blk)
						return true
					}
					if rs, ok := isChanRange(n.Stmt); ok {
						nChan++
						needSimrt, changed = true, true
						pre, loop := rewriteChanRange(rs, nChan)
						n.Stmt = loop
						c.Replace(&ast.BlockStmt{List: append(pre, n)})
						return true
					}
					rs, ok := isMapRange(n.Stmt)
					if !ok {
						return true
					}
					nRanges++
					needSimrt, changed = true, true
					pre, loop := rewriteRange(rs, nRanges, perLoopVars)
					n.Stmt = loop
					c.Replace(&ast.BlockStmt{List: append(pre, n)})
					return true
				case *ast.SelectorExpr:
					// clock seam: the wall clock and sleeping are the simulator's
					x, ok := n.X.(*ast.Ident)
					if !ok {
						return true
					}
					pn, ok := p.TypesInfo.Uses[x].(*types.PkgName)
					if ok && pn.Imported().Path() == "runtime" {
						// how many CPUs there are is the simulator's to say
						switch n.Sel.Name {
						case "NumCPU", "GOMAXPROCS", "Gosched":
							c.Replace(&ast.SelectorExpr{X: ast.NewIdent("__simrt"), Sel: ast.NewIdent(n.Sel.Name)})
							needSimrt, changed = true, true
							nClock++
							runtimeFiles[f] = true
						}
						return true
					}
					if ok && (pn.Imported().Path() == "math/rand" || pn.Imported().Path() == "math/rand/v2") {
						// the process-wide random source is the simulator's
						switch n.Sel.Name {
						case "Int", "Intn", "Int31", "Int31n", "Int63", "Int63n", "Uint32", "Uint64", "Float64", "Float32", "Perm", "Shuffle", "Seed",
							"IntN", "Int64", "Int64N", "Int32", "Int32N", "Uint64N", "Uint32N":
							c.Replace(&ast.SelectorExpr{X: ast.NewIdent("__simrt"), Sel: ast.NewIdent("Rand" + n.Sel.Name)})
							needSimrt, changed = true, true
							nClock++
							randFiles[f] = pn.Imported().Path()
						case "ExpFloat64", "NormFloat64", "Read", "N":
							die("%s: rand.%s of the process-wide source is not supported by the random-source seam", fname, n.Sel.Name)
						}
						return true
					}
					if ok && pn.Imported().Path() == "context" {
						// a deadline is a simulated timer
						switch n.Sel.Name {
						case "WithTimeout", "WithDeadline":
							c.Replace(&ast.SelectorExpr{X: ast.NewIdent("__simrt"), Sel: ast.NewIdent("Ctx" + n.Sel.Name)})
							needSimrt, changed = true, true
							nClock++
							contextFiles[f] = true
						case "WithTimeoutCause", "WithDeadlineCause", "AfterFunc":
							die("%s: context.%s is not supported by the timer seam", fname, n.Sel.Name)
						}
						return true
					}
					if !ok || pn.Imported().Path() != "time" {
						return true
					}
					switch n.Sel.Name {
					case "Now", "Since", "Until", "Sleep":
						c.Replace(&ast.SelectorExpr{X: ast.NewIdent("__simrt"), Sel: ast.NewIdent("Time" + n.Sel.Name)})
						needSimrt, changed = true, true
						nClock++
						timeFiles[f] = true
					case "After", "AfterFunc", "NewTimer", "NewTicker", "Tick":
						// timers are entries of the simulator's event list
						c.Replace(&ast.SelectorExpr{X: ast.NewIdent("__simrt"), Sel: ast.NewIdent("Time" + n.Sel.Name)})
						needSimrt, changed = true, true
						nClock++
						timeFiles[f] = true
					case "Timer", "Ticker":
						c.Replace(&ast.SelectorExpr{X: ast.NewIdent("__simrt"), Sel: ast.NewIdent(n.Sel.Name)})
						needSimrt, changed = true, true
						timeFiles[f] = true
					}
					return true
				case *ast.CallExpr:
					if id, ok := n.Fun.(*ast.Ident); ok && id.Name == "make" && len(n.Args) >= 1 {
						// the channels the library makes are the simulator's
						if _, isBuiltin := p.TypesInfo.Uses[id].(*types.Builtin); isBuiltin {
							if t := p.TypesInfo.TypeOf(n); t != nil {
								if _, isChan := t.Underlying().(*types.Chan); isChan {
									c.Replace(&ast.CallExpr{
										Fun:  &ast.SelectorExpr{X: ast.NewIdent("__simrt"), Sel: ast.NewIdent("RegChan")},
										Args: []ast.Expr{n},
									})
									needSimrt, changed = true, true
									nChan++
								}
							}
						}
						return true
					}
					if id, ok := n.Fun.(*ast.Ident); ok && id.Name == "len" && len(n.Args) == 1 {
						// what a simulator-owned channel holds is in the simulator's queue
						if _, isBuiltin := p.TypesInfo.Uses[id].(*types.Builtin); isBuiltin {
							if t := p.TypesInfo.TypeOf(n.Args[0]); t != nil {
								if _, isChan := t.Underlying().(*types.Chan); isChan {
									n.Fun = &ast.SelectorExpr{X: ast.NewIdent("__simrt"), Sel: ast.NewIdent("ChanLen")}
									needSimrt, changed = true, true
									nChan++
								}
							}
						}
						return true
					}
					if id, ok := n.Fun.(*ast.Ident); ok && id.Name == "close" && len(n.Args) == 1 {
						if _, isBuiltin := p.TypesInfo.Uses[id].(*types.Builtin); isBuiltin {
							n.Fun = &ast.SelectorExpr{X: ast.NewIdent("__simrt"), Sel: ast.NewIdent("ChanClose")}
							needSimrt, changed = true, true
							nChan++
						}
						return true
					}
					sel, ok := n.Fun.(*ast.SelectorExpr)
					if !ok {
						return true
					}
					x, ok := sel.X.(*ast.Ident)
					if !ok {
						return true
					}
					pn, ok := p.TypesInfo.Uses[x].(*types.PkgName)
					if !ok || pn.Imported().Path() != "fmt" {
						return true
					}
					fmtIdx := -1
					switch sel.Sel.Name {
					case "Sprintf", "Errorf", "Printf":
						fmtIdx = 0
					case "Fprintf", "Appendf":
						fmtIdx = 1
					}
					if fmtIdx < 0 || len(n.Args) <= fmtIdx {
						return true
					}
					tv, ok := p.TypesInfo.Types[n.Args[fmtIdx]]
					if !ok || tv.Value == nil || tv.Value.Kind() != constant.String {
						return true
					}
					fs := strings.ReplaceAll(constant.StringVal(tv.Value), "%%", "")
					if !strings.Contains(fs, "p") || !hasPVerb(fs) {
						return true
					}
					n.Fun = &ast.SelectorExpr{X: ast.NewIdent("__simrt"), Sel: ast.NewIdent(sel.Sel.Name)}
					needSimrt, changed = true, true
					nFmt++
					return true
				case *ast.RangeStmt:
					if _, ok := isChanRange(n); ok {
						if _, lab := c.Parent().(*ast.LabeledStmt); lab {
							return true
						}
						nChan++
						needSimrt, changed = true, true
						pre, loop := rewriteChanRange(n, nChan)
						c.Replace(&ast.BlockStmt{List: append(pre, loop)})
						return true
					}
					if _, ok := isMapRange(n); !ok {
						return true
					}
					if _, ok := c.Parent().(*ast.LabeledStmt); ok {
						return true // handled at the labeled statement, so the label stays on the loop
					}
					nRanges++
					needSimrt, changed = true, true
					pre, loop := rewriteRange(n, nRanges, perLoopVars)
					c.Replace(&ast.BlockStmt{List: append(pre, loop)})
					return true
				}
				return true
			})

			// 4. failpoints / probes
			for _, d := range f.Decls {
				fd, ok := d.(*ast.FuncDecl)
				if !ok || fd.Body == nil || fd.Name.Name == "init" {
					continue
				}
				if hasPragma(fd, "go:norace") || hasPragma(fd, "go:nosplit") {
					continue
				}
				id := len(sites)
				sites = append(sites, site{
					pkg:      strings.TrimPrefix(p.PkgPath, module),
					fn:       funcName(fd),
					pos:      relPos(dir, p.Fset.Position(fd.Pos())),
					hasPanic: containsPanic(fd.Body),
					inScope:  inScope,
				})
				call := &ast.ExprStmt{X: &ast.CallExpr{
					Fun:  &ast.SelectorExpr{X: ast.NewIdent("__simrt"), Sel: ast.NewIdent("FP")},
					Args: []ast.Expr{&ast.BasicLit{Kind: token.INT, Value: strconv.Itoa(id)}},
				}}
				fd.Body.List = append([]ast.Stmt{call}, fd.Body.List...)
				needSimrt, changed = true, true
				nFP++
			}

			for _, pkgPath := range []string{"time", "context", "runtime", "math/rand", "math/rand/v2"} {
				if (pkgPath == "time" && !timeFiles[f]) || (pkgPath == "context" && !contextFiles[f]) || (pkgPath == "runtime" && !runtimeFiles[f]) || (strings.HasPrefix(pkgPath, "math/rand") && randFiles[f] != pkgPath) {
					continue
				}
				// the file may have used the package for the rewritten calls only
				used := false
				ast.Inspect(f, func(n ast.Node) bool {
					if se, ok := n.(*ast.SelectorExpr); ok {
						if x, ok := se.X.(*ast.Ident); ok {
							if pn, ok := p.TypesInfo.Uses[x].(*types.PkgName); ok && pn.Imported().Path() == pkgPath {
								used = true
							}
						}
					}
					return !used
				})
				if !used {
					for _, im := range f.Imports {
						if im.Path.Value == `"`+pkgPath+`"` {
							if im.Name != nil {
								astutil.DeleteNamedImport(p.Fset, f, im.Name.Name, pkgPath)
							} else {
								astutil.DeleteImport(p.Fset, f, pkgPath)
							}
							break
						}
					}
				}
			}
			if needSimrt {
				astutil.AddNamedImport(p.Fset, f, "__simrt", simrtPath)
			}
			if changed && !astutil.UsesImport(f, "fmt") {
				astutil.DeleteImport(p.Fset, f, "fmt")
			}
			if changed {
				var buf bytes.Buffer
				if err := format.Node(&buf, p.Fset, f); err != nil {
					die("format %s: %v", fname, err)
				}
				if err := os.WriteFile(fname, buf.Bytes(), 0o644); err != nil {
					die("%v", err)
				}
			}
		}
	}

	// site table
	var sb strings.Builder
	sb.WriteString("// Code generated by simprep. DO NOT EDIT.\n\npackage simrt\n\nfunc init() {\n\tSites = []Site{\n")
	for _, s := range sites {
		fmt.Fprintf(&sb, "\t\t{Pkg: %q, Func: %q, Pos: %q, HasPanic: %v, InScope: %v},\n", s.pkg, s.fn, s.pos, s.hasPanic, s.inScope)
	}
	sb.WriteString("\t}\n}\n")
	if err := os.WriteFile(filepath.Join(dir, "simrt", "sites_gen.go"), []byte(sb.String()), 0o644); err != nil {
		die("%v", err)
	}
	fmt.Printf("simprep: module=%s sync-imports=%d map-ranges=%d fmt-%%p-calls=%d failpoints=%d go-stmts=%d chan-ops=%d perLoopVars=%v\n",
		module, nImports, nRanges, nFmt, nFP, nGo, nChan, perLoopVars)
}

func hasPVerb(fs string) bool {
	for i := 0; i < len(fs); i++ {
		if fs[i] != '%' {
			continue
		}
		j := i + 1
		for j < len(fs) && strings.IndexByte("+-# 0123456789.[]*", fs[j]) >= 0 {
			j++
		}
		if j < len(fs) && fs[j] == 'p' {
			return true
		}
		i = j
	}
	return false
}

func hasPragma(fd *ast.FuncDecl, p string) bool {
	if fd.Doc == nil {
		return false
	}
	for _, c := range fd.Doc.List {
		if strings.HasPrefix(c.Text, "//"+p) {
			return true
		}
	}
	return false
}

func funcName(fd *ast.FuncDecl) string {
	if fd.Recv == nil || len(fd.Recv.List) == 0 {
		return fd.Name.Name
	}
	var b bytes.Buffer
	_ = format.Node(&b, token.NewFileSet(), fd.Recv.List[0].Type)
	return "(" + b.String() + ")." + fd.Name.Name
}

func relPos(dir string, p token.Position) string {
	r, err := filepath.Rel(dir, p.Filename)
	if err != nil {
		r = p.Filename
	}
	return r + ":" + strconv.Itoa(p.Line)
}

func containsPanic(b *ast.BlockStmt) bool {
	found := false
	ast.Inspect(b, func(n ast.Node) bool {
		if ce, ok := n.(*ast.CallExpr); ok {
			if id, ok := ce.Fun.(*ast.Ident); ok && id.Name == "panic" {
				found = true
			}
		}
		return !found
	})
	return found
}

func isBlank(e ast.Expr) bool {
	if e == nil {
		return true
	}
	id, ok := e.(*ast.Ident)
	return ok && id.Name == "_"
}

// rewriteRange turns
//
//	for K, V := range M { body }
//
// into (per-loop variable semantics, Go < 1.22)
//
//	{ __mN := M; K := simrt.ZeroKey(__mN); V := simrt.ZeroVal(__mN)
//	  for _, __kN := range simrt.Keys(__mN) { var __okN bool; K = __kN; V, __okN = __mN[__kN]; if !__okN { continue }; body } }
//
// or (per-iteration semantics, Go >= 1.22) declares K, V inside the body. The
// assignment form `for K, V = range M` assigns to the existing operands.
func rewriteRange(rs *ast.RangeStmt, n int, perLoop bool) ([]ast.Stmt, *ast.RangeStmt) {
	sfx := strconv.Itoa(n)
	mName := ast.NewIdent("__m" + sfx)
	kTmp := ast.NewIdent("__k" + sfx)
	okTmp := ast.NewIdent("__ok" + sfx)
	simSel := func(name string) ast.Expr {
		return &ast.SelectorExpr{X: ast.NewIdent("__simrt"), Sel: ast.NewIdent(name)}
	}
	var outer []ast.Stmt
	outer = append(outer, &ast.AssignStmt{Lhs: []ast.Expr{mName}, Tok: token.DEFINE, Rhs: []ast.Expr{rs.X}})
	var pre []ast.Stmt
	define := rs.Tok == token.DEFINE
	hasK, hasV := !isBlank(rs.Key), !isBlank(rs.Value)

	if define && perLoop {
		if hasK {
			outer = append(outer, &ast.AssignStmt{Lhs: []ast.Expr{rs.Key}, Tok: token.DEFINE,
				Rhs: []ast.Expr{&ast.CallExpr{Fun: simSel("ZeroKey"), Args: []ast.Expr{mName}}}})
			outer = append(outer, &ast.AssignStmt{Lhs: []ast.Expr{ast.NewIdent("_")}, Tok: token.ASSIGN, Rhs: []ast.Expr{rs.Key}})
		}
		if hasV {
			outer = append(outer, &ast.AssignStmt{Lhs: []ast.Expr{rs.Value}, Tok: token.DEFINE,
				Rhs: []ast.Expr{&ast.CallExpr{Fun: simSel("ZeroVal"), Args: []ast.Expr{mName}}}})
			outer = append(outer, &ast.AssignStmt{Lhs: []ast.Expr{ast.NewIdent("_")}, Tok: token.ASSIGN, Rhs: []ast.Expr{rs.Value}})
		}
	}
	tok := token.ASSIGN
	if define && !perLoop {
		tok = token.DEFINE
	}
	// presence check first (deleted entries are not visited), then bind
	pre = append(pre,
		&ast.AssignStmt{Lhs: []ast.Expr{ast.NewIdent("__v" + sfx), okTmp}, Tok: token.DEFINE,
			Rhs: []ast.Expr{&ast.IndexExpr{X: mName, Index: kTmp}}},
		&ast.IfStmt{Cond: &ast.UnaryExpr{Op: token.NOT, X: okTmp},
			Body: &ast.BlockStmt{List: []ast.Stmt{&ast.BranchStmt{Tok: token.CONTINUE}}}},
		&ast.AssignStmt{Lhs: []ast.Expr{ast.NewIdent("_")}, Tok: token.ASSIGN, Rhs: []ast.Expr{ast.NewIdent("__v" + sfx)}},
	)
	if hasK {
		pre = append(pre, &ast.AssignStmt{Lhs: []ast.Expr{rs.Key}, Tok: tok, Rhs: []ast.Expr{kTmp}})
	}
	if hasV {
		pre = append(pre, &ast.AssignStmt{Lhs: []ast.Expr{rs.Value}, Tok: tok, Rhs: []ast.Expr{ast.NewIdent("__v" + sfx)}})
	}
	body := &ast.BlockStmt{List: append(pre, rs.Body.List...)}
	loop := &ast.RangeStmt{
		Key:   ast.NewIdent("_"),
		Value: kTmp,
		Tok:   token.DEFINE,
		X:     &ast.CallExpr{Fun: simSel("Keys"), Args: []ast.Expr{mName}},
		Body:  body,
	}
	return outer, loop
}

// fixRecv2 turns the single-value receive helper into the comma-ok one.
func fixRecv2(e ast.Expr) {
	ce, ok := e.(*ast.CallExpr)
	if !ok {
		return
	}
	sel, ok := ce.Fun.(*ast.SelectorExpr)
	if !ok {
		return
	}
	if x, ok := sel.X.(*ast.Ident); ok && x.Name == "__simrt" && sel.Sel.Name == "ChanRecv" {
		sel.Sel = ast.NewIdent("ChanRecv2")
	}
}

var goCounter int
var selCounter int

// simrtCall reports whether e is a call of __simrt.<one of names> and returns it.
func simrtCall(e ast.Expr, names ...string) (*ast.CallExpr, string) {
	for {
		p, ok := e.(*ast.ParenExpr)
		if !ok {
			break
		}
		e = p.X
	}
	ce, ok := e.(*ast.CallExpr)
	if !ok {
		return nil, ""
	}
	sel, ok := ce.Fun.(*ast.SelectorExpr)
	if !ok {
		return nil, ""
	}
	x, ok := sel.X.(*ast.Ident)
	if !ok || x.Name != "__simrt" {
		return nil, ""
	}
	for _, n := range names {
		if sel.Sel.Name == n {
			return ce, n
		}
	}
	return nil, ""
}

// rewriteSelect turns a select statement (whose communication clauses have already
// been rewritten into __simrt.ChanSend / ChanRecv / ChanRecv2 calls, post-order) into
//
//	{ __sNc0 := a; __sNc1 := b; __sNv1 := x
//	  switch __simrt.SelectReady(hasDefault, __simrt.RecvCase(__sNc0), __simrt.SendCase(__sNc1)) {
//	  case 0: v := __simrt.ChanRecvNow(__sNc0); …
//	  case 1: __simrt.ChanSendNow(__sNc1, __sNv1); …
//	  default: … } }
//
// Channel operands and values to send are evaluated once, in source order, before
// the choice, as Go does.
func rewriteSelect(s *ast.SelectStmt, fname string) (*ast.BlockStmt, *ast.SwitchStmt) {
	selCounter++
	pfx := "__s" + strconv.Itoa(selCounter)
	simSel := func(name string) ast.Expr {
		return &ast.SelectorExpr{X: ast.NewIdent("__simrt"), Sel: ast.NewIdent(name)}
	}
	var pre []ast.Stmt
	var cases []ast.Expr
	var clauses []ast.Stmt
	hasDefault := false
	idx := 0
	define := func(name string, e ast.Expr) *ast.Ident {
		id := ast.NewIdent(name)
		pre = append(pre, &ast.AssignStmt{Lhs: []ast.Expr{id}, Tok: token.DEFINE, Rhs: []ast.Expr{e}})
		return id
	}
	for _, st := range s.Body.List {
		cc := st.(*ast.CommClause)
		if cc.Comm == nil {
			hasDefault = true
			clauses = append(clauses, &ast.CaseClause{Body: cc.Body})
			continue
		}
		var call *ast.CallExpr
		var kind string
		switch c := cc.Comm.(type) {
		case *ast.ExprStmt:
			call, kind = simrtCall(c.X, "ChanSend", "ChanRecv")
		case *ast.AssignStmt:
			if len(c.Rhs) == 1 {
				call, kind = simrtCall(c.Rhs[0], "ChanRecv", "ChanRecv2")
			}
		}
		if call == nil {
			die("%s: a select clause simprep cannot rewrite", fname)
		}
		ch := define(pfx+"c"+strconv.Itoa(idx), call.Args[0])
		call.Args[0] = ch
		sel := call.Fun.(*ast.SelectorExpr)
		if kind == "ChanSend" {
			v := define(pfx+"v"+strconv.Itoa(idx), call.Args[1])
			call.Args[1] = v
			cases = append(cases, &ast.CallExpr{Fun: simSel("SendCase"), Args: []ast.Expr{ast.NewIdent(ch.Name)}})
		} else {
			cases = append(cases, &ast.CallExpr{Fun: simSel("RecvCase"), Args: []ast.Expr{ast.NewIdent(ch.Name)}})
		}
		sel.Sel = ast.NewIdent(kind + "Now")
		body := append([]ast.Stmt{cc.Comm}, cc.Body...)
		clauses = append(clauses, &ast.CaseClause{
			List: []ast.Expr{&ast.BasicLit{Kind: token.INT, Value: strconv.Itoa(idx)}},
			Body: body,
		})
		idx++
	}
	hd := "false"
	if hasDefault {
		hd = "true"
	} else {
		// a select without default is a terminating statement when all its clauses
		// are; a switch is only if it has a default clause: give it an unreachable one
		clauses = append(clauses, &ast.CaseClause{Body: []ast.Stmt{&ast.ExprStmt{X: &ast.CallExpr{
			Fun: ast.NewIdent("panic"), Args: []ast.Expr{&ast.BasicLit{Kind: token.STRING, Value: `"simrt: select chose no clause"`}}}}}})
	}
	tag := &ast.CallExpr{Fun: simSel("SelectReady"), Args: append([]ast.Expr{ast.NewIdent(hd)}, cases...)}
	sw := &ast.SwitchStmt{Tag: tag, Body: &ast.BlockStmt{List: clauses}}
	blk := &ast.BlockStmt{List: append(pre, sw)}
	return blk, sw
}

// rewriteGo turns `go f(a, b)` into
//
//	{ __gfN := f; __gaN_0 := a; __gaN_1 := b; __simrt.Go(func() { __gfN(__gaN_0, __gaN_1) }) }
//
// (function value and arguments are evaluated at the go statement, as Go does).
// Constant and nil arguments are kept inline so that they keep their untyped nature.
func rewriteGo(info *types.Info, g *ast.GoStmt) ast.Stmt {
	goCounter++
	sfx := strconv.Itoa(goCounter)
	call := g.Call
	var pre []ast.Stmt
	fn := call.Fun
	_, isLit := fn.(*ast.FuncLit)
	builtin := false
	if id, ok := fn.(*ast.Ident); ok && info.Uses[id] != nil {
		builtin = isBuiltinObj(info.Uses[id])
	}
	if !builtin && !(isLit && len(call.Args) == 0) {
		f := ast.NewIdent("__gf" + sfx)
		pre = append(pre, &ast.AssignStmt{Lhs: []ast.Expr{f}, Tok: token.DEFINE, Rhs: []ast.Expr{fn}})
		fn = f
	}
	args := make([]ast.Expr, len(call.Args))
	for i, a := range call.Args {
		tv, ok := info.Types[a]
		if ok && (tv.Value != nil || tv.IsNil()) {
			args[i] = a
			continue
		}
		t := ast.NewIdent("__ga" + sfx + "_" + strconv.Itoa(i))
		pre = append(pre, &ast.AssignStmt{Lhs: []ast.Expr{t}, Tok: token.DEFINE, Rhs: []ast.Expr{a}})
		args[i] = t
	}
	inner := &ast.CallExpr{Fun: fn, Args: args, Ellipsis: call.Ellipsis}
	goCall := &ast.ExprStmt{X: &ast.CallExpr{
		Fun: &ast.SelectorExpr{X: ast.NewIdent("__simrt"), Sel: ast.NewIdent("Go")},
		Args: []ast.Expr{&ast.FuncLit{
			Type: &ast.FuncType{Params: &ast.FieldList{}},
			Body: &ast.BlockStmt{List: []ast.Stmt{&ast.ExprStmt{X: inner}}},
		}},
	}}
	return &ast.BlockStmt{List: append(pre, goCall)}
}

func isBuiltinObj(o types.Object) bool {
	_, ok := o.(*types.Builtin)
	return ok
}

// rewriteChanRange turns `for v := range ch { body }` into
//
//	{ __cN := ch; for { v, __cokN := __simrt.ChanRecv2(__cN); if !__cokN { break }; body } }
func rewriteChanRange(rs *ast.RangeStmt, n int) ([]ast.Stmt, *ast.ForStmt) {
	sfx := strconv.Itoa(n)
	cName := ast.NewIdent("__c" + sfx)
	okName := ast.NewIdent("__cok" + sfx)
	pre := []ast.Stmt{&ast.AssignStmt{Lhs: []ast.Expr{cName}, Tok: token.DEFINE, Rhs: []ast.Expr{rs.X}}}
	recv := &ast.CallExpr{Fun: &ast.SelectorExpr{X: ast.NewIdent("__simrt"), Sel: ast.NewIdent("ChanRecv2")}, Args: []ast.Expr{cName}}
	var head []ast.Stmt
	var lhs ast.Expr = ast.NewIdent("_")
	if !isBlank(rs.Key) {
		lhs = rs.Key
	}
	if rs.Tok == token.DEFINE || isBlank(rs.Key) {
		head = append(head, &ast.AssignStmt{Lhs: []ast.Expr{lhs, okName}, Tok: token.DEFINE, Rhs: []ast.Expr{recv}})
	} else {
		head = append(head,
			&ast.DeclStmt{Decl: &ast.GenDecl{Tok: token.VAR, Specs: []ast.Spec{&ast.ValueSpec{Names: []*ast.Ident{okName}, Type: ast.NewIdent("bool")}}}},
			&ast.AssignStmt{Lhs: []ast.Expr{lhs, okName}, Tok: token.ASSIGN, Rhs: []ast.Expr{recv}})
	}
	head = append(head, &ast.IfStmt{Cond: &ast.UnaryExpr{Op: token.NOT, X: okName},
		Body: &ast.BlockStmt{List: []ast.Stmt{&ast.BranchStmt{Tok: token.BREAK}}}})
	loop := &ast.ForStmt{Body: &ast.BlockStmt{List: append(head, rs.Body.List...)}}
	return pre, loop
}
