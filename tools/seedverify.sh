#!/bin/bash
# seedverify.sh <worktree> : confirm a sub-agent's seeded change in its own worktree:
#   suite with the change (only TestEnum_String may fail), demo fails with, passes without.
export GOFLAGS=-mod=mod GOPROXY=off GOSUMDB=off GOTOOLCHAIN=local
wt=$1
cd "$wt" || exit 2
[ -f DELIVER/patch.diff ] || { echo "no DELIVER/patch.diff"; exit 2; }
mv DELIVER /tmp/DELIVER.$$            # keep its .go copies out of ./...
# locate demo files (untracked, outside DELIVER)
demos=$(git status --porcelain | awk '$1=="??"{print $2}')
echo "untracked: $demos"
mkdir -p /tmp/demo.$$; for d in $demos; do mkdir -p /tmp/demo.$$/$(dirname $d); mv $d /tmp/demo.$$/$d; done
echo "--- suite WITH change (demo aside):"
go build ./... && go test -vet=off -count=1 ./... 2>&1 | grep "^--- FAIL\|^FAIL\|panic:" | tr '\n' ' '; echo
for d in $demos; do mkdir -p $(dirname $d); cp -r /tmp/demo.$$/$d $d; done
mv /tmp/DELIVER.$$ DELIVER
echo "--- demo WITH change:"
(bash DELIVER/demo.sh >/tmp/demo_with.$$ 2>&1; echo "exit=$?"); tail -3 /tmp/demo_with.$$
# (git stash is shared between worktrees: use diff/checkout/apply instead)
git diff > /tmp/seedverify.$$.patch
git checkout -- .
echo "--- demo WITHOUT change:"
(bash DELIVER/demo.sh >/tmp/demo_without.$$ 2>&1; echo "exit=$?"); tail -3 /tmp/demo_without.$$
git apply /tmp/seedverify.$$.patch && rm -f /tmp/seedverify.$$.patch
rm -rf /tmp/demo.$$ /tmp/demo_with.$$ /tmp/demo_without.$$
