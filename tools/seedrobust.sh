#!/bin/bash
# seedrobust.sh [seeds…] : how robust is the detection of every kept seeded change?
# Each patch listed in selftest/mutants.txt is applied to a scratch worktree and the
# quick check of its property is run under several VERIF_SEEDs; prints caught/total.
export GOFLAGS=-mod=mod GOPROXY=off GOSUMDB=off GOTOOLCHAIN=local
VERIF=$(cd "$(dirname "$0")/.." && pwd)
SEEDS=${*:-"101 202 303"}
OUT=$(mktemp -d /var/tmp/jsim-robust-XXXXXX)
trap 'rm -rf "$OUT"' EXIT
grep -v '^#' "$VERIF/selftest/mutants.txt" | while read -r name prop spec; do
    [ -n "$name" ] || continue
    kind=${spec%%:*}; arg=${spec#*:}
    WT=$(mktemp -d /var/tmp/jsim-mut-XXXXXX); rmdir "$WT"
    git -C /repo worktree add -q --detach "$WT" HEAD || continue
    ok=1
    if [ "$kind" = revert ]; then
        c=$(git -C /repo log --format='%h %s' | grep -F "$arg" | head -1 | cut -d' ' -f1)
        [ -n "$c" ] && git -C "$WT" revert -n "$c" >/dev/null 2>&1 || ok=0
    else
        git -C "$WT" apply "$VERIF/$arg" || ok=0
    fi
    caught=0; total=0; detail=""
    if [ $ok = 1 ]; then
        for s in $SEEDS; do
            VERIF_SEED=$s JSIM_REPO="$WT" JSIM_OUT="$OUT/o" "$VERIF/run" "$prop" quick >"$OUT/log" 2>&1
            rc=$?
            total=$((total+1))
            if [ $rc -eq 1 ] && grep -q "^VIOLATION property=$prop" "$OUT/log"; then caught=$((caught+1)); else detail="$detail seed$s:exit$rc"; fi
        done
        echo "robust $name $prop $caught/$total$detail"
    else
        echo "robust $name $prop SKIPPED (does not apply)"
    fi
    git -C /repo worktree remove --force "$WT"
done
