#!/bin/bash
# seedrun.sh <seed-id> <property> [tier] : apply /verif/seeded/<id>/patch.diff to /repo,
# run the property's check with its output (evidence, replays) redirected to a scratch
# directory, and undo the patch straight afterwards.
id=$1; prop=$2; tier=${3:-quick}
out=/var/tmp/jsim-seedout/$id-$prop
rm -rf "$out"; mkdir -p "$out"
cp /verif/known_findings.json "$out/" 2>/dev/null
git -C /repo diff --quiet || { echo "/repo is dirty"; exit 2; }
git -C /repo apply /verif/seeded/$id/patch.diff || { echo "patch does not apply"; exit 2; }
t0=$(date +%s)
JSIM_OUT="$out" /verif/run "$prop" "$tier" > "$out/log.txt" 2>&1
rc=$?
git -C /repo checkout -- .
# keep the first minimised replay next to the seeded change (what a report of this violation looks like)
first=$(grep -m1 "^VIOLATION property=$prop" "$out/log.txt" | sed 's/.*replay=//')
[ -n "$first" ] && [ -f "$first" ] && cp "$first" "/verif/seeded/$id/replay-$prop.json"
echo "seed=$id prop=$prop tier=$tier exit=$rc wall=$(( $(date +%s) - t0 ))s"
grep "^jsim: [a-z-]* on\|^VIOLATION\|INCONCL\|KNOWN\|held" "$out/log.txt" | cut -c1-300 | head -12
exit $rc
