#!/bin/bash
# seedkeep.sh <id> : after seedverify.sh confirmed a sub-agent's change in /tmp/wt-<id>,
# copy its deliverables to /verif/seeded/<id>/ and remove the scratch worktree.
id=$1; wt=/tmp/wt-$id
[ -f "$wt/DELIVER/patch.diff" ] || { echo "no deliverables in $wt"; exit 2; }
mkdir -p /verif/seeded/$id
cp "$wt"/DELIVER/patch.diff "$wt"/DELIVER/demo.sh "$wt"/DELIVER/notes.md "$wt"/DELIVER/*.go.txt /verif/seeded/$id/ 2>/dev/null
git -C /repo apply --check /verif/seeded/$id/patch.diff || { echo "patch does not apply to /repo"; exit 2; }
git -C /repo worktree remove --force "$wt" && echo "kept $id, worktree removed"
ls /verif/seeded/$id
