#!/bin/bash
# benignrun.sh <patch.diff> [props...] : apply a behaviour-preserving change to a scratch
# worktree of /repo and run the quick checks against it; every check must stay silent.
VERIF=$(cd "$(dirname "$0")/.." && pwd)
patch=$1; shift
props=${*:-C09 C10 C11 C19}
WT=$(mktemp -d /var/tmp/jsim-ben-XXXXXX); rmdir "$WT"
git -C /repo worktree add -q --detach "$WT" HEAD || exit 2
trap 'git -C /repo worktree remove --force "$WT"' EXIT
git -C "$WT" apply "$patch" || { echo "patch does not apply: $patch"; exit 2; }
rc_all=0
for p in $props; do
    out=/var/tmp/jsim-benout-$$-$p; rm -rf "$out"
    JSIM_REPO="$WT" JSIM_OUT="$out" "$VERIF/run" $p quick > "$out.log" 2>&1
    rc=$?
    echo "$(basename "$patch") $p exit=$rc $(grep -c '^VIOLATION' "$out.log") violation(s) $(grep 'held on\|INCONCL' "$out.log" | head -1 | cut -c1-160)"
    if [ $rc -ne 0 ]; then rc_all=1; grep "^jsim: [a-z-]* on\|^VIOLATION\|INCONCL\|jsim: .*failed" "$out.log" | head -6 | cut -c1-300; mkdir -p /var/tmp/jsim-benfail; cp -r "$out" "$out.log" /var/tmp/jsim-benfail/ 2>/dev/null; fi
    rm -rf "$out" "$out.log"
done
exit $rc_all
