#!/bin/bash
# Self-tests of the machinery (DESIGN.md §2.9).
#   determinism : the same VERIF_SEED gives byte-identical per-run digests (event-log hash,
#                 observation hash, race-report digest) whatever GOMAXPROCS the workers run with
#   mutants     : every deliberate break (reverted fix commits, seeded changes) is caught by the
#                 quick tier of the property it breaks
#   clean       : all four quick checks are silent on the unchanged tree for several seeds
# Output of the checks goes to a scratch directory; /verif/evidence and /verif/replays are untouched.
set -u
export GOFLAGS=-mod=mod GOPROXY=off GOSUMDB=off GOTOOLCHAIN=local
VERIF=$(cd "$(dirname "$0")/.." && pwd)
REPO=${JSIM_REPO:-/repo}
what=${1:-all}
OUT=$(mktemp -d /var/tmp/jsim-selftest-XXXXXX)
trap 'rm -rf "$OUT"; [ -n "${WT:-}" ] && git -C "$REPO" worktree remove --force "$WT" 2>/dev/null' EXIT
fail=0

determinism() {
    for prop in C09 C10 C11; do
        for gmp in 1 4 16; do
            JSIM_OUT="$OUT/det" JSIM_DET_OUT="$OUT/det-$prop-$gmp.txt" JSIM_WORKER_GOMAXPROCS=$gmp \
                "$VERIF/run" $prop quick -scale 0.05 -det >"$OUT/det-$prop-$gmp.log" 2>&1
            rc=$?
            [ $rc -eq 0 ] || { echo "determinism: $prop GOMAXPROCS=$gmp exit $rc"; tail -3 "$OUT/det-$prop-$gmp.log"; fail=1; }
        done
        n=$(wc -l < "$OUT/det-$prop-1.txt")
        if cmp -s "$OUT/det-$prop-1.txt" "$OUT/det-$prop-4.txt" && cmp -s "$OUT/det-$prop-1.txt" "$OUT/det-$prop-16.txt"; then
            echo "determinism: $prop OK ($n runs x 3 worker GOMAXPROCS settings, digests identical)"
        else
            echo "determinism: $prop DIVERGED"; diff "$OUT/det-$prop-1.txt" "$OUT/det-$prop-16.txt" | head -5; fail=1
        fi
    done
}

mutants() {
    grep -v '^#' "$VERIF/selftest/mutants.txt" | while read -r name prop spec; do
        [ -n "$name" ] || continue
        WT=$(mktemp -d /var/tmp/jsim-mut-XXXXXX); rmdir "$WT"
        git -C "$REPO" worktree add -q --detach "$WT" HEAD || { echo "mutant $name: cannot create worktree"; continue; }
        kind=${spec%%:*}; arg=${spec#*:}
        ok=1
        if [ "$kind" = revert ]; then
            c=$(git -C "$REPO" log --format='%h %s' | grep -F "$arg" | head -1 | cut -d' ' -f1)
            [ -n "$c" ] && git -C "$WT" revert -n "$c" >/dev/null 2>&1 || ok=0
        else
            git -C "$WT" apply "$VERIF/$arg" || ok=0
        fi
        if [ $ok = 0 ]; then
            echo "mutant $name: does not apply to the current tree (SKIPPED)"
        else
            JSIM_REPO="$WT" JSIM_OUT="$OUT/mut-$name" "$VERIF/run" "$prop" quick >"$OUT/mut-$name.log" 2>&1
            rc=$?
            if [ $rc -eq 1 ] && grep -q "^VIOLATION property=$prop" "$OUT/mut-$name.log"; then
                echo "mutant $name: caught by $prop ($(grep -c '^VIOLATION' "$OUT/mut-$name.log") signature(s): $(grep '^jsim: [a-z-]* on' "$OUT/mut-$name.log" | head -1 | cut -c7-90))"
            else
                echo "mutant $name: NOT CAUGHT by $prop (exit $rc)"; tail -2 "$OUT/mut-$name.log"
                echo FAIL > "$OUT/failed"
            fi
        fi
        git -C "$REPO" worktree remove --force "$WT"; WT=""
    done
    [ -f "$OUT/failed" ] && fail=1
}

clean() {
    for seed in 1 2 3; do
        for prop in C09 C10 C11 C19; do
            VERIF_SEED=$seed JSIM_OUT="$OUT/clean" "$VERIF/run" $prop quick >"$OUT/clean-$prop-$seed.log" 2>&1
            rc=$?
            if [ $rc -eq 0 ]; then echo "clean: $prop seed=$seed OK"; else echo "clean: $prop seed=$seed exit $rc"; grep "VIOLATION\|INCONCL" "$OUT/clean-$prop-$seed.log" | head -3; fail=1; fi
        done
    done
}

unit() {
    U="$OUT/unit"; mkdir -p "$U/simrt/atomic"
    cp "$VERIF"/simrt/*.go "$U/simrt/" && cp "$VERIF"/simrt/atomic/*.go "$U/simrt/atomic/"
    printf 'module github.com/jsightapi/jsight-schema-core\n\ngo 1.18\n' > "$U/go.mod"
    printf 'package simrt\n' > "$U/simrt/sites_gen.go"
    for flags in "" "-race"; do
        if (cd "$U" && go test $flags -count=1 ./simrt/ >"$OUT/unit$flags.log" 2>&1); then
            echo "unit: simrt tests OK (go test $flags)"
        else
            echo "unit: simrt tests FAILED (go test $flags)"; tail -15 "$OUT/unit$flags.log"; fail=1
        fi
    done
}

benign() {
    for f in "$VERIF"/selftest/benign/*.diff; do
        "$VERIF/tools/benignrun.sh" "$f" || fail=1
    done
}

case "$what" in
    benign) benign ;;
    unit) unit ;;
    determinism) determinism ;;
    mutants) mutants ;;
    clean) clean ;;
    all) unit; determinism; clean; mutants ;;
    *) echo "usage: selftest/run.sh [unit|determinism|mutants|clean|benign|all]"; exit 2 ;;
esac
exit $fail
